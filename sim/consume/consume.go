// Package consume holds harness code shared by the C08 and C18 worlds: the
// library functions that take a parsed value as a PARAMETER and only read it,
// and the synthesis of simple arguments for read-only methods.
package consume

import (
	"fmt"
	"reflect"
	"strings"
	"time"

	"github.com/go-i2p/common/certificate"
	"github.com/go-i2p/common/data"
	"github.com/go-i2p/common/destination"
	"github.com/go-i2p/common/encrypted_leaseset"
	"github.com/go-i2p/common/key_certificate"
	"github.com/go-i2p/common/keys_and_cert"
	"github.com/go-i2p/common/lease_set2"
	"github.com/go-i2p/common/offline_signature"
	"github.com/go-i2p/common/router_identity"
	"github.com/go-i2p/crypto/kdf"

	"i2psim.local/sim/obs"
	"i2psim.local/sim/refmodel"
)

var obsOpt = &obs.Options{}

// Consumers hands the shared value to the library functions that take such a
// value as a PARAMETER and only read it: wrapping constructors, the blinding
// and encryption entry points, verification with a caller-supplied key. What
// they return is observed; results that depend on fresh entropy are reduced
// to success.
func Consumers(v any) string {
	var sb strings.Builder
	date := time.Unix(4102444800, 0).UTC()
	secret := refmodel.Expand(77, "conc-secret", 32)
	blind := func(d destination.Destination) {
		bd, err := encrypted_leaseset.CreateBlindedDestination(d, secret, date)
		fmt.Fprintf(&sb, "blind:%v;", err == nil)
		if err == nil {
			sb.WriteString(obs.Observe(&bd, obsOpt))
			if alpha, aerr := kdf.DeriveBlindingFactor(secret, "2100-01-01"); aerr == nil {
				fmt.Fprintf(&sb, "check:%v;", encrypted_leaseset.VerifyBlindedSignature(bd, d, alpha))
			}
		}
	}
	switch x := v.(type) {
	case *certificate.Certificate:
		kc, err := key_certificate.KeyCertificateFromCertificate(x)
		fmt.Fprintf(&sb, "keycert:%v;", err == nil)
		if err == nil {
			sb.WriteString(obs.Observe(kc, obsOpt))
		}
	case *keys_and_cert.KeysAndCert:
		d, err := destination.NewDestination(x)
		fmt.Fprintf(&sb, "dest:%v;", err == nil)
		if err == nil {
			sb.WriteString(obs.Observe(d, obsOpt))
		}
		ri, err := router_identity.NewRouterIdentityFromKeysAndCert(x)
		fmt.Fprintf(&sb, "rident:%v;", err == nil)
		if err == nil {
			sb.WriteString(obs.Observe(ri, obsOpt))
		}
	case *destination.Destination:
		if x != nil && x.KeysAndCert != nil {
			blind(*x)
		}
	case *router_identity.RouterIdentity:
		if x != nil && x.KeysAndCert != nil {
			blind(x.AsDestination())
		}
	case *lease_set2.LeaseSet2:
		var cookie [32]byte
		pub := refmodel.Expand(78, "conc-x25519", 32)
		// (the ciphertext depends on fresh entropy, possibly down to its length:
		// only success is a function of the value)
		_, err := encrypted_leaseset.EncryptInnerLeaseSet2(x, cookie, pub)
		fmt.Fprintf(&sb, "encrypt:%v;", err == nil)
		d := x.Destination()
		if d.KeysAndCert != nil {
			blind(d)
		}
	case *encrypted_leaseset.EncryptedLeaseSet:
		_, err := x.DecryptInnerData(make([]byte, 32), refmodel.Expand(79, "conc-priv", 32))
		fmt.Fprintf(&sb, "decrypt-wrong-key:%v;", err == nil)
	case *offline_signature.OfflineSignature:
		for _, k := range [][]byte{refmodel.NewSignKey(1, 7).Pub, refmodel.NewSignKey(2, 7).Pub, refmodel.NewSignKey(3, 11).Pub} {
			ok, err := x.VerifySignature(k)
			fmt.Fprintf(&sb, "verify:%v:%v;", ok, err == nil)
		}
	default:
		return "n/a"
	}
	return sb.String()
}

// ReadOnlyName excludes builders and mutators among the argument-taking methods.
func ReadOnlyName(n string) bool {
	for _, p := range []string{"Add", "Set", "With", "Build", "Zero", "Generate", "Decrypt", "Encrypt", "Sign", "New", "Remove", "Delete", "Append", "Reset", "Write", "Read", "Unmarshal", "Parse"} {
		if strings.HasPrefix(n, p) {
			return false
		}
	}
	return true
}

var i2pStringType = reflect.TypeOf(data.I2PString{})

// SynthArgs builds an argument list for a method whose parameters are all of
// simple kinds; ok=false if some parameter cannot be synthesised.
func SynthArgs(mt reflect.Type, variant int) ([]reflect.Value, bool) {
	var args []reflect.Value
	for i := 1; i < mt.NumIn(); i++ {
		pt := mt.In(i)
		switch {
		case pt == i2pStringType:
			str, _ := data.ToI2PString([]string{"host", "caps"}[variant])
			args = append(args, reflect.ValueOf(str))
		case pt.Kind() == reflect.String:
			args = append(args, reflect.ValueOf([]string{"host", "port"}[variant]).Convert(pt))
		case pt.Kind() >= reflect.Int && pt.Kind() <= reflect.Int64:
			args = append(args, reflect.ValueOf([]int64{0, 2}[variant]).Convert(pt))
		case pt.Kind() >= reflect.Uint && pt.Kind() <= reflect.Uint64:
			args = append(args, reflect.ValueOf([]uint64{3, 1}[variant]).Convert(pt))
		case pt.Kind() == reflect.Slice && pt.Elem().Kind() == reflect.Uint8 && pt.PkgPath() == "":
			b := make([]byte, 32)
			b[0] = byte(variant)
			args = append(args, reflect.ValueOf(b))
		case pt.Kind() == reflect.Bool:
			args = append(args, reflect.ValueOf(variant == 1))
		default:
			return nil, false
		}
	}
	return args, true
}
