package refmodel

import (
	"encoding/binary"
	"fmt"
)

// RawVerdict is the reference verifier's statement about one delivered byte
// string.
type RawVerdict struct {
	OK  bool
	Why string
	// what the reference found on the way (for evidence / replay notes)
	SigType   int
	Offline   bool
	Transient int
}

func rej(why string, a ...any) RawVerdict { return RawVerdict{Why: fmt.Sprintf(why, a...)} }

// identFromRaw reads what C05 needs from the identity at the start of raw:
// total identity length, signing key type and the key right-justified in the
// 384-byte block.
func identFromRaw(raw []byte) (identLen, sigType int, key []byte, why string) {
	if len(raw) < 387 {
		return 0, 0, nil, "shorter than an identity"
	}
	certType := raw[384]
	certLen := int(binary.BigEndian.Uint16(raw[385:387]))
	identLen = 387 + certLen
	if len(raw) < identLen {
		return 0, 0, nil, "identity certificate cut short"
	}
	switch certType {
	case 0:
		sigType = SigDSA
	case 5:
		if certLen < 4 {
			return 0, 0, nil, "key certificate shorter than 4 bytes"
		}
		sigType = int(binary.BigEndian.Uint16(raw[387:389]))
	default:
		return 0, 0, nil, fmt.Sprintf("certificate type %d carries no signing key type", certType)
	}
	kl := SigPubLen(sigType)
	if kl == 0 || kl > 128 {
		return 0, 0, nil, fmt.Sprintf("signing key type %d has no inline key", sigType)
	}
	return identLen, sigType, raw[384-kl : 384], ""
}

// offlineFromRaw checks an offline block at raw[at:] against the identity
// key: expires‖sigtype‖transient_key must verify under (idSig, idKey).
func offlineFromRaw(raw []byte, at int, idSig int, idKey []byte) (end, tType int, tKey []byte, why string) {
	if len(raw) < at+6 {
		return 0, 0, nil, "offline block cut short"
	}
	tType = int(binary.BigEndian.Uint16(raw[at+4 : at+6]))
	tl := SigPubLen(tType)
	if tl == 0 {
		return 0, 0, nil, fmt.Sprintf("unknown transient key type %d", tType)
	}
	sl := SigLen(idSig)
	if len(raw) < at+6+tl+sl {
		return 0, 0, nil, "offline block cut short"
	}
	tKey = raw[at+6 : at+6+tl]
	osig := raw[at+6+tl : at+6+tl+sl]
	if !VerifyRaw(idSig, idKey, raw[at:at+6+tl], osig) {
		return 0, 0, nil, "the transient key is not signed by the identity's key (offline signature over expires‖sigtype‖transient_key does not verify)"
	}
	return at + 6 + tl + sl, tType, tKey, ""
}

func bodyVerdict(raw []byte, consumed int, prefix []byte, sigType int, key []byte, v RawVerdict) RawVerdict {
	sl := SigLen(sigType)
	if sl == 0 || consumed < sl || consumed > len(raw) {
		return rej("no room for a type-%d signature in %d consumed bytes", sigType, consumed)
	}
	msg := append(append([]byte(nil), prefix...), raw[:consumed-sl]...)
	if !VerifyRaw(sigType, key, msg, raw[consumed-sl:consumed]) {
		v.Why = fmt.Sprintf("the trailing %d-byte type-%d signature does not verify over prefix %x ++ the %d delivered bytes before it", sl, sigType, prefix, consumed-sl)
		return v
	}
	v.OK = true
	return v
}

// VerifyDelivered is the C05 reference: do the delivered bytes raw[:consumed]
// carry a signature that is valid under the contained identity's key (or the
// blinded key), over exactly those bytes minus the signature, with the
// prescribed store-type prefix, and — when the OFFLINE flag is set — is the
// transient key itself signed by the identity's key?
//
// kind is one of rinfo, leaseset, ls2, mls, els. consumed is what the parser
// said it consumed (for leaseset, which returns no remainder, pass 0 and the
// reference computes the extent from the count fields).
func VerifyDelivered(kind string, raw []byte, consumed int) RawVerdict {
	switch kind {
	case "rinfo":
		_, st, key, why := identFromRaw(raw)
		if why != "" {
			return rej("%s", why)
		}
		return bodyVerdict(raw, consumed, nil, st, key, RawVerdict{SigType: st})
	case "leaseset":
		il, st, key, why := identFromRaw(raw)
		if why != "" {
			return rej("%s", why)
		}
		p := il + 256 + SigPubLen(st)
		if len(raw) < p+1 {
			return rej("cut before the lease count")
		}
		n := int(raw[p])
		ext := p + 1 + 44*n + SigLen(st)
		if len(raw) < ext {
			return rej("cut short")
		}
		return bodyVerdict(raw, ext, nil, st, key, RawVerdict{SigType: st})
	case "ls2", "mls":
		il, st, key, why := identFromRaw(raw)
		if why != "" {
			return rej("%s", why)
		}
		if len(raw) < il+8 {
			return rej("header cut short")
		}
		flags := binary.BigEndian.Uint16(raw[il+6 : il+8])
		v := RawVerdict{SigType: st}
		prefix := []byte{3}
		if kind == "mls" {
			prefix = []byte{7}
		}
		if flags&1 != 0 {
			_, tt, tk, why := offlineFromRaw(raw, il+8, st, key)
			if why != "" {
				v.Why, v.Offline = why, true
				return v
			}
			v.Offline, v.Transient = true, tt
			return bodyVerdict(raw, consumed, prefix, tt, tk, v)
		}
		return bodyVerdict(raw, consumed, prefix, st, key, v)
	case "els":
		if len(raw) < 2 {
			return rej("cut short")
		}
		st := int(binary.BigEndian.Uint16(raw[0:2]))
		kl := SigPubLen(st)
		if kl == 0 || len(raw) < 2+kl+8 {
			return rej("blinded key type %d unknown or header cut short", st)
		}
		key := raw[2 : 2+kl]
		flags := binary.BigEndian.Uint16(raw[2+kl+6 : 2+kl+8])
		v := RawVerdict{SigType: st}
		if flags&1 != 0 {
			_, tt, tk, why := offlineFromRaw(raw, 2+kl+8, st, key)
			if why != "" {
				v.Why, v.Offline = why, true
				return v
			}
			v.Offline, v.Transient = true, tt
			return bodyVerdict(raw, consumed, []byte{5}, tt, tk, v)
		}
		return bodyVerdict(raw, consumed, []byte{5}, st, key, v)
	}
	return rej("unknown kind %q", kind)
}

// VerifyOfflineBlock is the reference for a bare OfflineSignature: block =
// expires‖sigtype‖transient_key‖signature, judged under (idSig, idKey).
func VerifyOfflineBlock(block []byte, idSig int, idKey []byte) RawVerdict {
	_, tt, _, why := offlineFromRaw(block, 0, idSig, idKey)
	if why != "" {
		return RawVerdict{Why: why, Offline: true, SigType: idSig}
	}
	return RawVerdict{OK: true, Offline: true, SigType: idSig, Transient: tt}
}
