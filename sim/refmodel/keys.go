// Package refmodel is the reference model used as oracle by the simulated
// worlds: an independent encoder / extent calculator for the I2P common
// structures, written from the 0.9.67 common-structures layout (see
// DESIGN.md §4.1), a reference signature verifier built on Go's standard
// crypto over raw bytes, and exact (big-integer) time arithmetic.
//
// Nothing in this package calls into github.com/go-i2p/common.
package refmodel

import (
	"crypto"
	"crypto/dsa"
	"crypto/ecdsa"
	"crypto/ed25519"
	"crypto/elliptic"
	"crypto/sha1"
	"crypto/sha256"
	"crypto/sha512"
	"encoding/binary"
	"encoding/hex"
	"fmt"
	"math/big"
	mrand "math/rand/v2"
	"strings"
	"sync"
)

// Signature / signing-key type codes (published table).
const (
	SigDSA       = 0
	SigP256      = 1
	SigP384      = 2
	SigP521      = 3
	SigRSA2048   = 4
	SigRSA3072   = 5
	SigRSA4096   = 6
	SigEd25519   = 7
	SigEd25519ph = 8
	SigRedDSA    = 11
)

// Encryption key type codes.
const (
	EncElGamal   = 0
	EncP256      = 1
	EncP384      = 2
	EncP521      = 3
	EncX25519    = 4
	EncMLKEM512  = 5
	EncMLKEM768  = 6
	EncMLKEM1024 = 7
)

// SigPubLen returns the signing public key length of a type, 0 if unknown.
func SigPubLen(t int) int {
	switch t {
	case SigDSA:
		return 128
	case SigP256:
		return 64
	case SigP384:
		return 96
	case SigP521:
		return 132
	case SigRSA2048:
		return 256
	case SigRSA3072:
		return 384
	case SigRSA4096:
		return 512
	case SigEd25519, SigEd25519ph, SigRedDSA:
		return 32
	}
	return 0
}

// SigLen returns the signature length of a type, 0 if unknown.
func SigLen(t int) int {
	switch t {
	case SigDSA:
		return 40
	case SigP256:
		return 64
	case SigP384:
		return 96
	case SigP521:
		return 132
	case SigRSA2048:
		return 256
	case SigRSA3072:
		return 384
	case SigRSA4096:
		return 512
	case SigEd25519, SigEd25519ph, SigRedDSA:
		return 64
	}
	return 0
}

// EncPubLen returns the length an encryption key occupies inside the 384-byte
// identity block, 0 if unknown.
func EncPubLen(t int) int {
	switch t {
	case EncElGamal:
		return 256
	case EncP256:
		return 64
	case EncP384:
		return 96
	case EncP521:
		return 132
	case EncX25519, EncMLKEM512, EncMLKEM768, EncMLKEM1024:
		return 32
	}
	return 0
}

func mustHex(s string) *big.Int {
	s = strings.Join(strings.Fields(s), "")
	b, err := hex.DecodeString(s)
	if err != nil {
		panic(err)
	}
	return new(big.Int).SetBytes(b)
}

// I2P's fixed DSA domain parameters (specification, "Cryptography: DSA").
var (
	dsaP = mustHex(`9C05B2AA 960D9B97 B8931963 C9CC9E8C 3026E9B8 ED92FAD0 A69CC886 D5BF8015
		FCADAE31 A0AD18FA B3F01B00 A358DE23 7655C496 4AFAA2B3 37E96AD3 16B9FB1C
		C564B5AE C5B69A9F F6C3E454 8707FEF8 503D91DD 8602E867 E6D35D22 35C1869C
		E2479C3B 9D5401DE 04E0727F B33D6511 285D4CF2 9538D9E3 B6051F5B 22CC1C93`)
	dsaQ = mustHex(`A5DFC28F EF4CA1E2 86744CD8 EED9D29D 684046B7`)
	dsaG = mustHex(`0C1F4D27 D40093B4 29E962D7 223824E0 BBC47E7C 832A3923 6FC683AF 84889581
		075FF908 2ED32353 D4374D73 01CDA1D2 3C431F46 98599DDA 02451824 FF369752
		593647CC 3DDC197D E985E43D 136CDCFC 6BD5409C D2F45082 1142A5E6 F8EB1C3A
		B5D0484B 8129FCF1 7BCE4F7F 33321C3C B3DBB14A 905E7B2B 3E93BE47 08CBCC82`)
	dsaParams = dsa.Parameters{P: dsaP, Q: dsaQ, G: dsaG}
)

// SignKey is a signing key pair of one of the verifiable types, derived
// deterministically from a seed.
type SignKey struct {
	Type int
	Pub  []byte // wire form, SigPubLen(Type) bytes
	priv any
	seed uint64
}

// expand derives n pseudo-random bytes from (seed, label) without touching
// any global randomness.
func expand(seed uint64, label string, n int) []byte {
	out := make([]byte, 0, n+32)
	var ctr uint64
	for len(out) < n {
		h := sha256.New()
		var b [16]byte
		binary.BigEndian.PutUint64(b[:8], seed)
		binary.BigEndian.PutUint64(b[8:], ctr)
		h.Write(b[:])
		h.Write([]byte(label))
		out = h.Sum(out)
		ctr++
	}
	return out[:n]
}

var (
	keyMu    sync.Mutex
	keyCache = map[[2]uint64]*SignKey{}
)

// NewSignKey derives a key pair. Types without an implementable signer
// (P521, RSA) get random public bytes and no private key.
func NewSignKey(seed uint64, typ int) *SignKey {
	keyMu.Lock()
	defer keyMu.Unlock()
	ck := [2]uint64{seed, uint64(typ)}
	if k, ok := keyCache[ck]; ok {
		return k
	}
	k := &SignKey{Type: typ, seed: seed}
	switch typ {
	case SigEd25519, SigEd25519ph, SigRedDSA:
		p := ed25519.NewKeyFromSeed(expand(seed, fmt.Sprintf("ed/%d", typ), 32))
		k.priv = p
		k.Pub = append([]byte(nil), p.Public().(ed25519.PublicKey)...)
	case SigP256, SigP384:
		curve, n := elliptic.P256(), 32
		if typ == SigP384 {
			curve, n = elliptic.P384(), 48
		}
		d := expand(seed, fmt.Sprintf("ec/%d", typ), n)
		d[0] &= 0x7F
		d[n-1] |= 1
		p, err := ecdsa.ParseRawPrivateKey(curve, d)
		if err != nil {
			panic(fmt.Sprintf("refmodel: ecdsa key: %v", err))
		}
		k.priv = p
		k.Pub = make([]byte, 2*n)
		p.PublicKey.X.FillBytes(k.Pub[:n])
		p.PublicKey.Y.FillBytes(k.Pub[n:])
	case SigDSA:
		xb := expand(seed, "dsa", 20)
		xb[0] &= 0x7F
		xb[19] |= 1
		x := new(big.Int).SetBytes(xb)
		y := new(big.Int).Exp(dsaG, x, dsaP)
		k.priv = &dsa.PrivateKey{PublicKey: dsa.PublicKey{Parameters: dsaParams, Y: y}, X: x}
		k.Pub = make([]byte, 128)
		y.FillBytes(k.Pub)
	default:
		n := SigPubLen(typ)
		if n == 0 {
			n = 32
		}
		k.Pub = expand(seed, fmt.Sprintf("opaque/%d", typ), n)
	}
	keyCache[ck] = k
	return k
}

// CanSign reports whether the reference can produce signatures of this type.
func (k *SignKey) CanSign() bool { return k.priv != nil }

// Ed25519Private returns the private key for Ed25519-family types (needed to
// drive the library's own signing constructors), nil otherwise.
func (k *SignKey) Ed25519Private() ed25519.PrivateKey {
	if p, ok := k.priv.(ed25519.PrivateKey); ok {
		return p
	}
	return nil
}

// Sign signs msg with Go's standard crypto. nonce makes DSA signatures
// reproducible (crypto/dsa draws its k from the reader it is given); ECDSA in
// Go 1.26 draws from the global source, which the worker pins per run.
func (k *SignKey) Sign(msg []byte, nonce uint64) []byte {
	switch p := k.priv.(type) {
	case ed25519.PrivateKey:
		if k.Type == SigEd25519ph {
			d := sha512.Sum512(msg)
			s, err := p.Sign(nil, d[:], &ed25519.Options{Hash: crypto.SHA512})
			if err != nil {
				panic(err)
			}
			return s
		}
		return ed25519.Sign(p, msg)
	case *ecdsa.PrivateKey:
		n := 32
		var d []byte
		if k.Type == SigP384 {
			n = 48
			h := sha512.Sum384(msg)
			d = h[:]
		} else {
			h := sha256.Sum256(msg)
			d = h[:]
		}
		r, s, err := ecdsa.Sign(nil, p, d)
		if err != nil {
			panic(err)
		}
		out := make([]byte, 2*n)
		r.FillBytes(out[:n])
		s.FillBytes(out[n:])
		return out
	case *dsa.PrivateKey:
		h := sha1.Sum(msg)
		var cs [32]byte
		copy(cs[:], expand(k.seed^nonce, "dsa-k", 32))
		r, s, err := dsa.Sign(mrand.NewChaCha8(cs), p, h[:])
		if err != nil {
			panic(err)
		}
		out := make([]byte, 40)
		r.FillBytes(out[:20])
		s.FillBytes(out[20:])
		return out
	}
	// No signer: opaque bytes of the right length.
	return expand(k.seed^nonce, "opaque-sig", SigLen(k.Type))
}

// VerifyRaw is the reference verifier: is sig a valid signature of type typ
// over msg under the wire-form public key pub? Unknown or unimplementable
// types never verify.
func VerifyRaw(typ int, pub, msg, sig []byte) bool {
	if len(pub) != SigPubLen(typ) || len(sig) != SigLen(typ) || len(pub) == 0 {
		return false
	}
	switch typ {
	case SigEd25519, SigRedDSA:
		// The library treats type 11 keys as plain Ed25519 keys; "valid
		// under the signing key" is judged with the same primitive.
		return ed25519.Verify(ed25519.PublicKey(pub), msg, sig)
	case SigEd25519ph:
		d := sha512.Sum512(msg)
		if ed25519.VerifyWithOptions(ed25519.PublicKey(pub), d[:], sig, &ed25519.Options{Hash: crypto.SHA512}) == nil {
			return true
		}
		// A pure-Ed25519 signature under the same key is still a signature
		// that only the key holder can make; C05 is about *whose* key and
		// *which bytes*, so the reference does not veto on ph-vs-pure.
		return ed25519.Verify(ed25519.PublicKey(pub), msg, sig)
	case SigP256, SigP384:
		curve, n := elliptic.P256(), 32
		var d []byte
		if typ == SigP384 {
			curve, n = elliptic.P384(), 48
			h := sha512.Sum384(msg)
			d = h[:]
		} else {
			h := sha256.Sum256(msg)
			d = h[:]
		}
		raw := append([]byte{4}, pub...)
		pk, err := ecdsa.ParseUncompressedPublicKey(curve, raw)
		if err != nil {
			return false
		}
		r := new(big.Int).SetBytes(sig[:n])
		s := new(big.Int).SetBytes(sig[n:])
		return ecdsa.Verify(pk, d, r, s)
	case SigDSA:
		y := new(big.Int).SetBytes(pub)
		if y.Sign() == 0 || y.Cmp(dsaP) >= 0 {
			return false
		}
		h := sha1.Sum(msg)
		r := new(big.Int).SetBytes(sig[:20])
		s := new(big.Int).SetBytes(sig[20:])
		return dsa.Verify(&dsa.PublicKey{Parameters: dsaParams, Y: y}, h[:], r, s)
	}
	return false
}

// Expand derives n pseudo-random bytes from (seed, label).
func Expand(seed uint64, label string, n int) []byte { return expand(seed, label, n) }

// PrivBytes returns the private key in the raw form the library's dependency
// constructors take (Ed25519: 64 bytes; ECDSA: the scalar; DSA: the 20-byte
// exponent), nil if the reference cannot sign with this type.
func (k *SignKey) PrivBytes() []byte {
	switch p := k.priv.(type) {
	case ed25519.PrivateKey:
		return append([]byte(nil), p...)
	case *ecdsa.PrivateKey:
		b, err := p.Bytes()
		if err != nil {
			return nil
		}
		return b
	case *dsa.PrivateKey:
		out := make([]byte, 20)
		p.X.FillBytes(out)
		return out
	}
	return nil
}
