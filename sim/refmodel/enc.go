package refmodel

import (
	"bytes"
	"crypto/sha256"
	"encoding/binary"
	"encoding/hex"
	"fmt"
	"sort"

	"i2psim.local/sim/engine"
)

// Field is one entry of a frame's field map. Class groups fields for fault
// biasing and for the C08 exemptions.
type Field struct {
	Name  string
	Start int
	End   int
	Class string
}

// Field classes.
const (
	ClsEncKey     = "enckey"
	ClsPadding    = "padding"
	ClsSignKey    = "signkey"
	ClsCert       = "cert"
	ClsCertLen    = "certlen"
	ClsCertPay    = "certpayload"
	ClsHeader     = "header"
	ClsCount      = "count"
	ClsLen        = "len"
	ClsLease      = "lease"
	ClsKey        = "key"
	ClsOptions    = "options"
	ClsOffline    = "offline"
	ClsOffSig     = "offline_sig"
	ClsSig        = "signature"
	ClsBody       = "body"
	ClsString     = "string"
	ClsEntry      = "entry"
	ClsEntryProps = "entry_props"
)

// Identity is a KeysAndCert with its key pair.
type Identity struct {
	Sig, Crypto int
	CertForm    string // "null" | "key"
	Excess      int
	Key         *SignKey
	EncPub      []byte
	Padding     []byte
	Block       []byte // 384 bytes
	Cert        []byte
	Bytes       []byte // Block ++ Cert
}

// Frame is a reference-encoded structure.
type Frame struct {
	Kind   string
	Bytes  []byte
	Fields []Field
	// Identity-bearing structures.
	Ident     *Identity
	Transient *SignKey // offline key, nil if none
	// Signed structures: covered content is Bytes[:SigStart], signature is
	// Bytes[SigStart:], Prefix is the store-type byte (nil for none).
	SigStart int
	SigType  int
	Prefix   []byte
	// OffStart/OffEnd delimit the offline block inside Bytes (0,0 if none).
	OffStart, OffEnd int
	// Exact semantic values, for the time oracles.
	Published uint64
	Expires   uint64
	Ends      []uint64
}

type builder struct {
	b []byte
	f []Field
}

func (w *builder) put(name, class string, data []byte) {
	w.f = append(w.f, Field{name, len(w.b), len(w.b) + len(data), class})
	w.b = append(w.b, data...)
}

func be(n int, v uint64) []byte {
	var t [8]byte
	binary.BigEndian.PutUint64(t[:], v)
	return append([]byte(nil), t[8-n:]...)
}

// Extent is len(frame): the reference's statement of how many bytes the
// structure occupies.
func (f *Frame) Extent() int { return len(f.Bytes) }

// FieldAt returns the field containing offset off (nil if none).
func (f *Frame) FieldAt(off int) *Field {
	for i := range f.Fields {
		if off >= f.Fields[i].Start && off < f.Fields[i].End {
			return &f.Fields[i]
		}
	}
	return nil
}

// FieldsOf returns the fields of a class.
func (f *Frame) FieldsOf(class string) []Field {
	var out []Field
	for _, x := range f.Fields {
		if x.Class == class {
			out = append(out, x)
		}
	}
	return out
}

// EncodeMapping encodes key/value pairs as an I2P Mapping. Pairs are sorted
// by key unless unsorted is set.
func EncodeMapping(pairs [][2]string, unsorted bool) []byte {
	p := append([][2]string(nil), pairs...)
	if !unsorted {
		sort.SliceStable(p, func(i, j int) bool { return p[i][0] < p[j][0] })
	}
	var body []byte
	for _, kv := range p {
		body = append(body, byte(len(kv[0])))
		body = append(body, kv[0]...)
		body = append(body, '=')
		body = append(body, byte(len(kv[1])))
		body = append(body, kv[1]...)
		body = append(body, ';')
	}
	return append(be(2, uint64(len(body))), body...)
}

// NewIdentity builds a KeysAndCert. certForm "null" forces DSA/ElGamal.
func NewIdentity(seed uint64, sig, crypto int, certForm string, excess int) *Identity {
	if certForm == "null" {
		sig, crypto = SigDSA, EncElGamal
	}
	id := &Identity{Sig: sig, Crypto: crypto, CertForm: certForm, Excess: excess}
	id.Key = NewSignKey(seed, sig)
	el := EncPubLen(crypto)
	sl := SigPubLen(sig)
	if el == 0 || el > 256 {
		el = 256
	}
	if sl > 128 {
		// Keys longer than the inline area: the reference keeps the first
		// 128 bytes inline (the rest would go to the certificate); only used
		// to build inputs the parser must reject.
		sl = 128
	}
	id.EncPub = expand(seed, fmt.Sprintf("enc/%d", crypto), el)
	if crypto == EncElGamal {
		id.EncPub[0] = 0x01 | (id.EncPub[0] & 0x7F)
	}
	id.Padding = expand(seed, "pad", 384-el-sl)
	id.Block = make([]byte, 0, 384)
	id.Block = append(id.Block, id.EncPub...)
	id.Block = append(id.Block, id.Padding...)
	pub := id.Key.Pub
	if len(pub) > 128 {
		pub = pub[:128]
	}
	id.Block = append(id.Block, pub...)
	if certForm == "null" {
		id.Cert = append([]byte{0}, be(2, uint64(excess))...)
		id.Cert = append(id.Cert, expand(seed, "nullpay", excess)...)
	} else {
		id.Cert = append([]byte{5}, be(2, uint64(4+excess))...)
		id.Cert = append(id.Cert, be(2, uint64(sig))...)
		id.Cert = append(id.Cert, be(2, uint64(crypto))...)
		id.Cert = append(id.Cert, expand(seed, "keypay", excess)...)
	}
	id.Bytes = append(append([]byte(nil), id.Block...), id.Cert...)
	return id
}

func (w *builder) putIdentity(id *Identity) {
	el := len(id.EncPub)
	w.put("enc_key", ClsEncKey, id.Block[:el])
	w.put("padding", ClsPadding, id.Block[el:el+len(id.Padding)])
	w.put("signing_key", ClsSignKey, id.Block[el+len(id.Padding):])
	w.put("cert_type", ClsCert, id.Cert[:1])
	w.put("cert_len", ClsCertLen, id.Cert[1:3])
	if len(id.Cert) > 3 {
		w.put("cert_payload", ClsCertPay, id.Cert[3:])
	}
}

// elemHash is the 32-byte hash of element i of n (lease gateway, entry hash):
// unrelated bytes normally, related to the structure itself when the shape's
// Ref knob selects this element.
func (w *builder) elemHash(sh *engine.Shape, id *Identity, i, n int, label string, prev []byte) []byte {
	plain := expand(sh.Seed+uint64(i), label, 32)
	if sh.Ref == 0 || n == 0 || (sh.Ref>>4)%n != i {
		return plain
	}
	sum := func(b []byte) []byte { h := sha256.Sum256(b); return h[:] }
	switch sh.Ref & 15 {
	case 1:
		if id != nil {
			return sum(id.Bytes)
		}
	case 2:
		if id != nil {
			return sum(id.Key.Pub)
		}
	case 3:
		if id != nil {
			return append([]byte(nil), id.Bytes[:32]...)
		}
	case 4:
		if id != nil && len(id.Key.Pub) >= 32 {
			return append([]byte(nil), id.Key.Pub[len(id.Key.Pub)-32:]...)
		}
	case 5:
		return sum(w.b)
	case 6:
		if len(prev) >= 32 {
			return append([]byte(nil), prev[:32]...)
		}
		return make([]byte, 32)
	case 7:
		return make([]byte, 32)
	case 8:
		return bytes.Repeat([]byte{0xFF}, 32)
	}
	return plain
}

func identOf(sh *engine.Shape) *Identity {
	cert := sh.Cert
	if cert == "" {
		cert = "key"
	}
	return NewIdentity(sh.IdentSeed, sh.Sig, sh.Crypto, cert, sh.Excess)
}

func u(sh *engine.Shape, i int) uint64 {
	if i < len(sh.U) {
		return sh.U[i]
	}
	return 0
}

// putOffline appends an offline block (expires, sigtype, transient key,
// signature by the identity key) and returns the transient key.
func (w *builder) putOffline(o *engine.OfflineShape, signer *SignKey, destSigType int) *SignKey {
	tk := NewSignKey(o.Seed, o.Transient)
	start := len(w.b)
	w.put("off_expires", ClsOffline, be(4, o.Expires))
	w.put("off_sigtype", ClsOffline, be(2, uint64(o.Transient)))
	w.put("off_transient_key", ClsOffline, tk.Pub)
	signed := w.b[start:]
	var sig []byte
	switch {
	case o.Forge == 1:
		sig = expand(o.Seed, "offsig-forged", SigLen(destSigType))
	case o.Forge == 2:
		sig = make([]byte, SigLen(destSigType))
	case o.Forge == 3:
		sig = NewSignKey(o.ForgeSeed, destSigType).Sign(signed, o.Seed)
	case o.Forge == 4 && signer != nil && signer.Type == destSigType:
		// genuinely signed by the identity, but for another expiry
		was := append(be(4, o.AltExpires), signed[4:]...)
		sig = signer.Sign(was, o.Seed)
	case signer != nil && signer.Type == destSigType:
		sig = signer.Sign(signed, o.Seed)
	default:
		sig = expand(o.Seed, "offsig-opaque", SigLen(destSigType))
	}
	w.put("off_signature", ClsOffSig, sig)
	return tk
}

// Build reference-encodes a shape.
func Build(sh *engine.Shape) (*Frame, error) {
	w := &builder{}
	f := &Frame{Kind: sh.Kind}
	switch sh.Kind {
	case "integer":
		if sh.Size < 1 || sh.Size > 8 {
			return nil, fmt.Errorf("integer size %d", sh.Size)
		}
		w.put("integer", ClsBody, be(sh.Size, u(sh, 0)))
	case "string":
		if len(sh.Str) > 255 {
			return nil, fmt.Errorf("string too long")
		}
		w.put("strlen", ClsLen, []byte{byte(len(sh.Str))})
		w.put("str", ClsString, []byte(sh.Str))
	case "date":
		w.put("date", ClsBody, be(8, u(sh, 0)))
	case "hash":
		w.put("hash", ClsBody, expand(sh.Seed, "hash", 32))
	case "sessionkey":
		w.put("sessionkey", ClsBody, expand(sh.Seed, "sk", 32))
	case "sessiontag":
		w.put("sessiontag", ClsBody, expand(sh.Seed, "st", 32))
	case "eciestag":
		w.put("eciestag", ClsBody, expand(sh.Seed, "et", 8))
	case "mapping":
		m := EncodeMapping(sh.Opts, sh.Unsorted)
		w.put("map_size", ClsLen, m[:2])
		w.put("map_body", ClsOptions, m[2:])
	case "cert":
		// U[0] = type, N = payload length.
		w.put("cert_type", ClsCert, []byte{byte(u(sh, 0))})
		w.put("cert_len", ClsCertLen, be(2, uint64(sh.N)))
		w.put("cert_payload", ClsCertPay, expand(sh.Seed, "certpay", sh.N))
	case "keycert":
		w.put("cert_type", ClsCert, []byte{5})
		w.put("cert_len", ClsCertLen, be(2, uint64(4+sh.Excess)))
		w.put("cert_payload", ClsCertPay, append(append(be(2, uint64(sh.Sig)), be(2, uint64(sh.Crypto))...), expand(sh.Seed, "kcpay", sh.Excess)...))
	case "kac", "dest", "rident":
		f.Ident = identOf(sh)
		w.putIdentity(f.Ident)
	case "sig":
		n := SigLen(sh.Sig)
		if n == 0 {
			return nil, fmt.Errorf("unknown sig type %d", sh.Sig)
		}
		w.put("signature", ClsSig, expand(sh.Seed, "sig", n))
		f.SigType = sh.Sig
	case "offsig":
		// Sig = destination signature type; genuine when IdentSeed != 0.
		if sh.Offline == nil {
			return nil, fmt.Errorf("offsig without offline shape")
		}
		var signer *SignKey
		if sh.IdentSeed != 0 {
			signer = NewSignKey(sh.IdentSeed, sh.Sig)
		}
		f.Transient = w.putOffline(sh.Offline, signer, sh.Sig)
		f.OffStart, f.OffEnd = 0, len(w.b)
		f.Expires = sh.Offline.Expires
	case "lease":
		w.put("lease_gw", ClsLease, expand(sh.Seed, "gw", 32))
		w.put("lease_tid", ClsLease, be(4, u(sh, 0)))
		w.put("lease_end", ClsLease, be(8, u(sh, 1)))
		f.Ends = []uint64{u(sh, 1)}
	case "lease2":
		w.put("lease_gw", ClsLease, expand(sh.Seed, "gw", 32))
		w.put("lease_tid", ClsLease, be(4, u(sh, 0)))
		w.put("lease_end", ClsLease, be(4, u(sh, 1)))
		f.Ends = []uint64{u(sh, 1)}
	case "leaseset":
		// U = lease end dates (ms), N = lease count.
		f.Ident = identOf(sh)
		w.putIdentity(f.Ident)
		ek := expand(sh.Seed, "ls-elg", 256)
		ek[0] = 0x01 | (ek[0] & 0x7F)
		w.put("ls_enc_key", ClsKey, ek)
		rk := expand(sh.Seed, "ls-revoke", SigPubLen(f.Ident.Sig))
		if f.Ident.Sig == SigDSA {
			rk[0] = 0x01 | (rk[0] & 0x3F)
		}
		w.put("ls_signing_key", ClsKey, rk)
		w.put("ls_count", ClsCount, []byte{byte(sh.N)})
		var l []byte
		for i := 0; i < sh.N; i++ {
			l = append(w.elemHash(sh, f.Ident, i, sh.N, "ls-gw", l), be(4, uint64(i+1))...)
			l = append(l, be(8, u(sh, i))...)
			w.put(fmt.Sprintf("lease%d", i), ClsLease, l)
			f.Ends = append(f.Ends, u(sh, i))
		}
		f.SigStart, f.SigType = len(w.b), f.Ident.Sig
		w.put("signature", ClsSig, f.Ident.Key.Sign(w.b, sh.Seed))
	case "ls2", "mls":
		// U[0]=published U[1]=expires U[2]=flags U[3..]=lease end seconds /
		// entry expiries; N = leases / entries; Size = number of encryption
		// keys (ls2).
		f.Ident = identOf(sh)
		w.putIdentity(f.Ident)
		flags := u(sh, 2)
		if sh.Offline != nil {
			flags |= 1
		} else {
			flags &^= 1
		}
		w.put("published", ClsHeader, be(4, u(sh, 0)))
		w.put("expires", ClsHeader, be(2, u(sh, 1)))
		w.put("flags", ClsHeader, be(2, flags))
		f.Published, f.Expires = u(sh, 0), u(sh, 1)
		signKey := f.Ident.Key
		f.SigType = f.Ident.Sig
		if sh.Offline != nil {
			f.OffStart = len(w.b)
			f.Transient = w.putOffline(sh.Offline, f.Ident.Key, f.Ident.Sig)
			f.OffEnd = len(w.b)
			signKey = f.Transient
			f.SigType = sh.Offline.Transient
		}
		m := EncodeMapping(sh.Opts, sh.Unsorted)
		w.put("opt_size", ClsOptions, m[:2])
		if len(m) > 2 {
			w.put("opt_body", ClsOptions, m[2:])
		}
		if sh.Kind == "ls2" {
			nk := sh.Size
			if nk < 1 {
				nk = 1
			}
			w.put("numk", ClsCount, []byte{byte(nk)})
			for i := 0; i < nk; i++ {
				kt := []int{EncX25519, EncElGamal, EncMLKEM512, EncX25519}[int(expand(sh.Seed+uint64(i), "kt", 1)[0])%4]
				kl := EncPubLen(kt)
				if i < len(sh.Sub) && sh.Sub[i].Kind == "key" {
					// explicit key type / length (legal but unusual: the length
					// need not be the one the type usually has)
					kt, kl = int(u(&sh.Sub[i], 0)), sh.Sub[i].Size
				}
				w.put(fmt.Sprintf("keytype%d", i), ClsLen, be(2, uint64(kt)))
				w.put(fmt.Sprintf("keylen%d", i), ClsLen, be(2, uint64(kl)))
				w.put(fmt.Sprintf("key%d", i), ClsKey, expand(sh.Seed+uint64(i), "ls2key", kl))
			}
			w.put("num", ClsCount, []byte{byte(sh.N)})
			var l []byte
			for i := 0; i < sh.N; i++ {
				l = append(w.elemHash(sh, f.Ident, i, sh.N, "ls2-gw", l), be(4, uint64(i+1))...)
				l = append(l, be(4, u(sh, 3+i))...)
				w.put(fmt.Sprintf("lease%d", i), ClsLease, l)
				f.Ends = append(f.Ends, u(sh, 3+i))
			}
			f.Prefix = []byte{3}
		} else {
			w.put("num", ClsCount, []byte{byte(sh.N)})
			var e []byte
			for i := 0; i < sh.N; i++ {
				x := expand(sh.Seed+uint64(i), "mls-entry", 34)
				if sh.Ref != 0 {
					copy(x, w.elemHash(sh, f.Ident, i, sh.N, "mls-entry-ref", e))
				}
				e = append([]byte(nil), x[:32]...)
				e = append(e, []byte{1, 3, 5}[int(x[32])%3])
				e = append(e, be(4, u(sh, 3+i))...)
				e = append(e, x[33])
				w.put(fmt.Sprintf("entry%d", i), ClsEntry, e)
				var props [][2]string
				if i < len(sh.Sub) {
					props = sh.Sub[i].Opts
				}
				pm := EncodeMapping(props, false)
				w.put(fmt.Sprintf("entry%d_props", i), ClsEntryProps, pm)
				f.Ends = append(f.Ends, u(sh, 3+i))
			}
			f.Prefix = []byte{7}
		}
		f.SigStart = len(w.b)
		w.put("signature", ClsSig, signKey.Sign(append(signPrefix(sh, f.Prefix), w.b...), sh.Seed))
	case "els":
		// Sig = blinded key type; IdentSeed = blinded key seed; Size = inner
		// length; U as ls2.
		bk := NewSignKey(sh.IdentSeed, sh.Sig)
		w.put("sigtype", ClsHeader, be(2, uint64(sh.Sig)))
		w.put("blinded_key", ClsSignKey, bk.Pub)
		flags := u(sh, 2) &^ 1
		if sh.Offline != nil {
			flags |= 1
		}
		w.put("published", ClsHeader, be(4, u(sh, 0)))
		w.put("expires", ClsHeader, be(2, u(sh, 1)))
		w.put("flags", ClsHeader, be(2, flags))
		f.Published, f.Expires = u(sh, 0), u(sh, 1)
		signKey := bk
		f.SigType = sh.Sig
		if sh.Offline != nil {
			f.OffStart = len(w.b)
			f.Transient = w.putOffline(sh.Offline, bk, sh.Sig)
			f.OffEnd = len(w.b)
			signKey = f.Transient
			f.SigType = sh.Offline.Transient
		}
		inner := expand(sh.Seed, "els-inner", sh.Size)
		if sh.Hex != "" {
			var err error
			inner, err = hex.DecodeString(sh.Hex)
			if err != nil {
				return nil, err
			}
		}
		w.put("inner_len", ClsLen, be(2, uint64(len(inner))))
		w.put("inner", ClsBody, inner)
		f.Prefix = []byte{5}
		f.SigStart = len(w.b)
		w.put("signature", ClsSig, signKey.Sign(append(signPrefix(sh, f.Prefix), w.b...), sh.Seed))
		f.Ident = &Identity{Sig: sh.Sig, Key: bk}
	case "raddr":
		putRouterAddress(w, sh, "")
	case "rinfo":
		// U[0] = published ms, U[1] = peer_size, Sub = addresses.
		f.Ident = identOf(sh)
		w.putIdentity(f.Ident)
		w.put("published", ClsHeader, be(8, u(sh, 0)))
		w.put("addr_count", ClsCount, []byte{byte(len(sh.Sub))})
		for i := range sh.Sub {
			putRouterAddress(w, &sh.Sub[i], fmt.Sprintf("addr%d_", i))
		}
		w.put("peer_size", ClsCount, []byte{byte(u(sh, 1))})
		m := EncodeMapping(sh.Opts, sh.Unsorted)
		w.put("opt_size", ClsLen, m[:2])
		if len(m) > 2 {
			w.put("opt_body", ClsOptions, m[2:])
		}
		f.SigStart, f.SigType = len(w.b), f.Ident.Sig
		w.put("signature", ClsSig, f.Ident.Key.Sign(w.b, sh.Seed))
	default:
		return nil, fmt.Errorf("refmodel: unknown shape kind %q", sh.Kind)
	}
	f.Bytes, f.Fields = w.b, w.f
	if sh.SigFill != 0 && len(w.f) > 0 && w.f[len(w.f)-1].Name == "signature" {
		sig := w.b[w.f[len(w.f)-1].Start:]
		body := w.b[:w.f[len(w.f)-1].Start]
		switch sh.SigFill {
		case 1:
			// the last lease / entry (with its properties), repeated
			from := -1
			for _, fl := range w.f {
				if fl.Class == ClsLease || fl.Class == ClsEntry {
					from = fl.Start
				}
			}
			if from >= 0 && from < len(body) {
				el := append([]byte(nil), body[from:]...)
				for i := range sig {
					sig[i] = el[i%len(el)]
				}
			}
		case 2:
			copy(sig, append([]byte(nil), body...))
		case 3:
			clear(sig)
		}
	}
	return f, nil
}

// signPrefix is the store-type byte the signer actually prepends (the
// prescribed one unless the shape says the publisher is Byzantine).
func signPrefix(sh *engine.Shape, prescribed []byte) []byte {
	if sh.Prefix < 0 {
		return nil // signs without any store-type byte
	}
	if sh.Prefix != 0 {
		return []byte{byte(sh.Prefix)}
	}
	return append([]byte(nil), prescribed...)
}

func putRouterAddress(w *builder, sh *engine.Shape, pfx string) {
	w.put(pfx+"cost", ClsHeader, []byte{byte(u(sh, 0))})
	w.put(pfx+"expiration", ClsHeader, be(8, u(sh, 1)))
	w.put(pfx+"style_len", ClsLen, []byte{byte(len(sh.Str))})
	w.put(pfx+"style", ClsString, []byte(sh.Str))
	m := EncodeMapping(sh.Opts, sh.Unsorted)
	w.put(pfx+"opt_size", ClsLen, m[:2])
	if len(m) > 2 {
		w.put(pfx+"opt_body", ClsOptions, m[2:])
	}
}

// Resign replaces the frame's trailing signature by one made with key over
// prefix ++ content (content = Bytes[:SigStart]).
func (f *Frame) Resign(key *SignKey, prefix []byte, nonce uint64) {
	msg := append(append([]byte(nil), prefix...), f.Bytes[:f.SigStart]...)
	sig := key.Sign(msg, nonce)
	f.Bytes = append(f.Bytes[:f.SigStart:f.SigStart], sig...)
}
