package engine

import (
	"fmt"
	"testing"
	"time"
)

// Minimise shrinks a failing script by delta debugging while the same
// violation class persists: drop chunks of ops, faults, schedule switches and
// boots (halves down to single elements), then apply the world's own argument
// simplifications, and repeat until nothing more can be removed or the
// budget is spent. It returns the smallest script found and its outcome.
func Minimise(t *testing.T, w World, s *Script, class string, maxExec int, maxTime time.Duration) (*Script, *Outcome) {
	start := time.Now()
	execs := 0
	best := s.Clone()
	bestOut := runOnce(t, w, best, "min.base")
	if !bestOut.HasClass(class) {
		// Not reproducible in a second execution: hand back the original; the
		// driver will flag the replay mismatch as infrastructure trouble.
		return best, bestOut
	}
	try := func(c *Script) bool {
		if execs >= maxExec || time.Since(start) > maxTime {
			return false
		}
		execs++
		o := runOnce(t, w, c, fmt.Sprintf("min.%d", execs))
		if o.HasClass(class) {
			best, bestOut = c, o
			return true
		}
		return false
	}
	type list struct {
		n   func(*Script) int
		del func(*Script, int, int)
	}
	lists := []list{
		{func(x *Script) int { return len(x.Faults) }, func(x *Script, a, b int) { x.Faults = append(x.Faults[:a:a], x.Faults[b:]...) }},
		{func(x *Script) int { return len(x.Ops) }, func(x *Script, a, b int) { x.Ops = append(x.Ops[:a:a], x.Ops[b:]...) }},
		{func(x *Script) int { return len(x.Sched) }, func(x *Script, a, b int) { x.Sched = append(x.Sched[:a:a], x.Sched[b:]...) }},
		{func(x *Script) int { return len(x.Boots) }, func(x *Script, a, b int) { x.Boots = append(x.Boots[:a:a], x.Boots[b:]...) }},
	}
	for progress := true; progress; {
		progress = false
		for _, l := range lists {
			for chunk := (l.n(best) + 1) / 2; chunk >= 1; chunk /= 2 {
				for i := 0; i+chunk <= l.n(best); {
					c := best.Clone()
					l.del(c, i, i+chunk)
					if try(c) {
						progress = true
					} else {
						i += chunk
					}
				}
				if chunk == 1 {
					break
				}
			}
		}
		if sw, ok := w.(Simplifier); ok {
			for again := true; again; {
				again = false
				for _, c := range sw.Simplify(best) {
					if try(c) {
						progress, again = true, true
						break
					}
				}
			}
		}
		if execs >= maxExec || time.Since(start) > maxTime {
			break
		}
	}
	return best, bestOut
}
