// Package engine holds the world-independent part of the simulator: the
// seeded generator, the script (replay file) format, the run fingerprint, the
// worker loop that a world's test binary runs, and the delta-debugging
// minimiser.
package engine

import "encoding/binary"

// RNG is SplitMix64. Everything random in a run is derived from one of these,
// seeded from mix(VERIF_SEED, run index). The executor never draws from it.
type RNG struct{ s uint64 }

func NewRNG(seed uint64) *RNG { return &RNG{s: seed} }

// Mix derives the seed of run i of a batch from the batch seed.
func Mix(seed uint64, i uint64) uint64 {
	r := RNG{s: seed ^ (i+1)*0x9E3779B97F4A7C15}
	r.Uint64()
	return r.Uint64()
}

func (r *RNG) Uint64() uint64 {
	r.s += 0x9E3779B97F4A7C15
	z := r.s
	z = (z ^ (z >> 30)) * 0xBF58476D1CE4E5B9
	z = (z ^ (z >> 27)) * 0x94D049BB133111EB
	return z ^ (z >> 31)
}

// Intn returns a value in [0,n). n<=0 yields 0.
func (r *RNG) Intn(n int) int {
	if n <= 0 {
		return 0
	}
	return int(r.Uint64() % uint64(n))
}

// Range returns a value in [lo,hi] inclusive.
func (r *RNG) Range(lo, hi int) int {
	if hi <= lo {
		return lo
	}
	return lo + r.Intn(hi-lo+1)
}

// Chance is true with probability num/den.
func (r *RNG) Chance(num, den int) bool { return r.Intn(den) < num }

func (r *RNG) Bytes(n int) []byte {
	b := make([]byte, n)
	i := 0
	for ; i+8 <= n; i += 8 {
		binary.LittleEndian.PutUint64(b[i:], r.Uint64())
	}
	if i < n {
		var t [8]byte
		binary.LittleEndian.PutUint64(t[:], r.Uint64())
		copy(b[i:], t[:])
	}
	return b
}

// Fork returns an independent generator; used so that adding draws in one
// part of a generator does not shift every later part.
func (r *RNG) Fork() *RNG { return NewRNG(r.Uint64()) }

// PickInt picks one of the values.
func (r *RNG) PickInt(v ...int) int { return v[r.Intn(len(v))] }

// PickU64 picks one of the values.
func (r *RNG) PickU64(v ...uint64) uint64 { return v[r.Intn(len(v))] }

// PickStr picks one of the values.
func (r *RNG) PickStr(v ...string) string { return v[r.Intn(len(v))] }
