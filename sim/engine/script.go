package engine

import (
	"crypto/sha256"
	"encoding/hex"
	"encoding/json"
	"fmt"
	"os"
	"sort"
)

// Script is one simulated execution written down as data. The generator turns
// a run seed into a Script; the executor is a pure function of (Script, code
// under test). A replay file is a Script plus the expected violation class and
// fingerprint.
type Script struct {
	World       string           `json:"world"`
	Property    string           `json:"property"`
	Seed        uint64           `json:"seed"`
	EntropySeed uint64           `json:"entropy_seed"`
	Config      map[string]int64 `json:"config,omitempty"`
	Actors      []Actor          `json:"actors,omitempty"`
	Ops         []Op             `json:"ops,omitempty"`
	Faults      []Fault          `json:"faults,omitempty"`
	Sched       []Sched          `json:"sched,omitempty"`
	Boots       []Boot           `json:"boots,omitempty"`
	Expect      *Expect          `json:"expect,omitempty"`
	// Notes are written by the executor into a replay file for the human
	// reader (hex of frames, field maps); they are never read back.
	Notes map[string]string `json:"notes,omitempty"`
}

// Actor is a party of the simulated system (publisher, floodfill, client,
// reader task, transport).
type Actor struct {
	ID     string `json:"id"`
	Kind   string `json:"kind"`
	Sig    int    `json:"sigtype,omitempty"`
	Crypto int    `json:"crypto,omitempty"`
	Cert   string `json:"cert,omitempty"`
	Seed   uint64 `json:"seed,omitempty"`
	Zone   int    `json:"zone_s,omitempty"` // fixed zone offset in seconds
	// Transient (offline) key type, -1 = none
	Transient int `json:"transient,omitempty"`
}

// Op is one scripted operation. Which fields matter depends on (World, Op).
type Op struct {
	Actor  string   `json:"actor,omitempty"`
	Op     string   `json:"op"`
	Struct string   `json:"struct,omitempty"`
	Shape  *Shape   `json:"shape,omitempty"`
	N      []int64  `json:"n,omitempty"`
	S      []string `json:"s,omitempty"`
	Hex    string   `json:"hex,omitempty"`
}

// Fault is an injected fault. Step names the op (index into Ops at generation
// time is not stable under minimisation, so faults carry the op *tag* in
// N[0] where needed; most worlds attach faults to ops directly instead).
type Fault struct {
	At   int64    `json:"at"`
	Kind string   `json:"kind"`
	N    []int64  `json:"n,omitempty"`
	S    []string `json:"s,omitempty"`
	Hex  string   `json:"hex,omitempty"`
}

// Sched is one scripted preemption: after the AfterYield-th yield of the
// run, switch to Task.
type Sched struct {
	AfterYield int64 `json:"after_yield"`
	Task       int   `json:"task"`
}

// Boot is one simulated boot of a node: a fresh bubble clock slept to At
// (seconds since the Unix epoch) in a fixed zone.
type Boot struct {
	AtUnix int64  `json:"at_unix"`
	AtNs   int64  `json:"at_ns,omitempty"`
	Zone   int    `json:"zone_s,omitempty"`
	Why    string `json:"why,omitempty"`
}

// Expect is filled in when a script is written as a replay file.
type Expect struct {
	ViolationClass string `json:"violation_class"`
	Fingerprint    string `json:"fingerprint"`
	Detail         string `json:"detail,omitempty"`
}

// Shape describes a wire structure to be built by the reference encoder. It
// is data only; package refmodel gives it meaning.
type Shape struct {
	Kind string `json:"kind"`
	// Seed expands to every byte string the shape does not spell out
	// (hashes, padding, encryption keys, tunnel ids).
	Seed uint64 `json:"seed,omitempty"`
	// Identity: signing/crypto key types, certificate form, key material seed.
	Sig       int    `json:"sig,omitempty"`
	Crypto    int    `json:"crypto,omitempty"`
	Cert      string `json:"cert,omitempty"` // "null" | "key" | "type<N>"
	Excess    int    `json:"excess,omitempty"`
	IdentSeed uint64 `json:"ident_seed,omitempty"`
	// Counts and scalar fields; meaning per kind (documented in refmodel).
	N    int         `json:"n,omitempty"`
	U    []uint64    `json:"u,omitempty"`
	Opts [][2]string `json:"opts,omitempty"`
	// Offline block: transient key type (-1/absent = none) and its expiry.
	Offline *OfflineShape `json:"offline,omitempty"`
	Sub     []Shape       `json:"sub,omitempty"`
	// Size is used by primitive kinds (integer width, string/raw length).
	Size int    `json:"size,omitempty"`
	Str  string `json:"str,omitempty"`
	Hex  string `json:"hex,omitempty"`
	// Unsorted keeps Opts in the given order instead of sorting by key.
	Unsorted bool `json:"unsorted,omitempty"`
	// Prefix overrides the store-type byte the signer prepends (0 = the
	// prescribed one): a Byzantine publisher signing with the wrong prefix.
	Prefix int `json:"prefix,omitempty"`
	// Ref makes one 32-byte hash inside the structure (a lease's gateway, a
	// MetaLeaseSet entry's hash) refer to the structure itself instead of
	// being unrelated bytes: low 4 bits = how (1 hash of own destination,
	// 2 hash of own signing key, 3 first bytes of own identity, 4 own signing
	// key bytes, 5 hash of everything before it, 6 same as the element
	// before it, 7 zeros, 8 ones); the rest selects the element.
	Ref int `json:"ref,omitempty"`
	// SigFill replaces the trailing signature (which parsers do not verify)
	// by bytes that look like more structure: 1 = a copy of the element(s)
	// just before it (last lease / entry), 2 = a copy of the beginning of the
	// frame, 3 = zeros. Only for worlds that do not judge verification.
	SigFill int `json:"sigfill,omitempty"`
}

type OfflineShape struct {
	Transient int    `json:"transient"`
	Expires   uint64 `json:"expires"`
	Seed      uint64 `json:"seed,omitempty"`
	// Forge: 0 = the block is signed by the identity's own key (genuine);
	// 1 = random offline signature, 2 = all-zero offline signature,
	// 3 = signed by another identity's key (ForgeSeed), i.e. a block
	// transplanted from that identity.
	// 4 = the identity signed this transient key for the expiry AltExpires;
	// the holder of the transient key wrote another expiry into the block
	// (the delegation stretched by the delegate).
	Forge      int    `json:"forge,omitempty"`
	ForgeSeed  uint64 `json:"forge_seed,omitempty"`
	AltExpires uint64 `json:"alt_expires,omitempty"`
}

func (s *Script) Clone() *Script {
	b, _ := json.Marshal(s)
	var c Script
	_ = json.Unmarshal(b, &c)
	return &c
}

func (s *Script) Cfg(k string, def int64) int64 {
	if v, ok := s.Config[k]; ok {
		return v
	}
	return def
}

func LoadScript(path string) (*Script, error) {
	b, err := os.ReadFile(path)
	if err != nil {
		return nil, err
	}
	var s Script
	if err := json.Unmarshal(b, &s); err != nil {
		return nil, fmt.Errorf("%s: %w", path, err)
	}
	return &s, nil
}

func (s *Script) Save(path string) error {
	b, err := json.MarshalIndent(s, "", " ")
	if err != nil {
		return err
	}
	return os.WriteFile(path, append(b, '\n'), 0o644)
}

// Fingerprint folds every executed step of a run into a running SHA-256.
type Fingerprint struct {
	h    [32]byte
	n    uint64
	init bool
}

func (f *Fingerprint) Step(parts ...any) {
	hh := sha256.New()
	hh.Write(f.h[:])
	fmt.Fprintf(hh, "%d|", f.n)
	for _, p := range parts {
		switch v := p.(type) {
		case []byte:
			fmt.Fprintf(hh, "b%d:", len(v))
			hh.Write(v)
		case string:
			fmt.Fprintf(hh, "s%d:%s", len(v), v)
		default:
			fmt.Fprintf(hh, "v:%v", v)
		}
		hh.Write([]byte{0})
	}
	copy(f.h[:], hh.Sum(nil))
	f.n++
}

func (f *Fingerprint) Sum() string { return hex.EncodeToString(f.h[:]) }

// SortedKeys returns the keys of a string-keyed map in sorted order; the
// executor never ranges over a map directly.
func SortedKeys[V any](m map[string]V) []string {
	k := make([]string, 0, len(m))
	for x := range m {
		k = append(k, x)
	}
	sort.Strings(k)
	return k
}
