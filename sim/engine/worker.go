package engine

import (
	"encoding/json"
	"fmt"
	"os"
	"path/filepath"
	"regexp"
	"runtime/debug"
	"strconv"
	"strings"
	"testing"
	"testing/cryptotest"
	"time"
)

// World is what a simulated world exposes to the worker loop.
type World interface {
	Name() string
	// Generate turns one run's generator into a script. tier is "quick" or
	// "thorough" (thorough may use wider bounds).
	Generate(r *RNG, tier string) *Script
	// Execute runs a script against the code under test. It must be a pure
	// function of the script: no PRNG draws, no real clock, no map ranging.
	Execute(t *testing.T, s *Script) *Outcome
}

// Simplifier is optionally implemented by worlds that know argument-level
// simplifications beyond dropping list elements.
type Simplifier interface {
	Simplify(s *Script) []*Script
}

type Violation struct {
	Class  string `json:"class"`
	Detail string `json:"detail"`
}

// Outcome is what one execution of one script observed.
type Outcome struct {
	FP Fingerprint `json:"-"`
	// FPR, when a world fills it (HasFPR), is the fingerprint of the results
	// only, without anything that depends on the path the code under test took
	// (yield counts, switch positions). Two executions whose FP differ but
	// whose FPR agree executed a tree whose path is not a function of the
	// script (it ranges over a Go map, say): that is recorded, not treated as
	// nondeterminism of the simulator.
	FPR         Fingerprint       `json:"-"`
	HasFPR      bool              `json:"-"`
	Violations  []Violation       `json:"violations,omitempty"`
	Faults      map[string]int64  `json:"faults,omitempty"`
	Probes      map[string]int64  `json:"probes,omitempty"`
	SimSeconds  float64           `json:"sim_seconds,omitempty"`
	NonTrivial  bool              `json:"non_trivial"`
	Panics      int               `json:"panics,omitempty"`
	PanicSample string            `json:"panic_sample,omitempty"`
	Notes       map[string]string `json:"-"`
	// Tags name situations the run reached ("kind:detail"); the driver counts
	// the distinct tags per kind over the whole batch (interleavings, (entry
	// point, fault) pairs, ...).
	Tags map[string]bool `json:"-"`
}

// Tag records that the run reached a situation.
func (o *Outcome) Tag(kind, detail string) {
	if o.Tags == nil {
		o.Tags = map[string]bool{}
	}
	o.Tags[kind+":"+detail] = true
}

func NewOutcome() *Outcome {
	return &Outcome{Faults: map[string]int64{}, Probes: map[string]int64{}, Notes: map[string]string{}}
}

func (o *Outcome) Violate(class, format string, a ...any) {
	o.Violations = append(o.Violations, Violation{Class: class, Detail: fmt.Sprintf(format, a...)})
}
func (o *Outcome) Fault(kind string)           { o.Faults[kind]++; o.NonTrivial = true }
func (o *Outcome) Probe(name string)           { o.Probes[name]++ }
func (o *Outcome) ProbeN(name string, n int64) { o.Probes[name] += n }

// Guard runs f and converts a panic in library code into a counted event.
// Panics are C04/C20 matter, which this technique does not claim, so they are
// never reported as violations of the property under check.
func (o *Outcome) Guard(what string, f func()) (panicked bool) {
	defer func() {
		if r := recover(); r != nil {
			panicked = true
			o.Panics++
			if o.PanicSample == "" {
				st := string(debug.Stack())
				if len(st) > 1500 {
					st = st[:1500]
				}
				o.PanicSample = fmt.Sprintf("%s: %v\n%s", what, r, st)
			}
		}
	}()
	f()
	return false
}

func (o *Outcome) HasClass(c string) bool {
	for _, v := range o.Violations {
		if v.Class == c {
			return true
		}
	}
	return false
}

// ViolationReport is a violation as reported by a worker to the driver.
type ViolationReport struct {
	Class       string `json:"class"`
	Detail      string `json:"detail"`
	Replay      string `json:"replay"`
	RunSeed     uint64 `json:"run_seed"`
	RunIndex    int    `json:"run_index"`
	Count       int    `json:"count"`
	MinOps      int    `json:"min_ops"`
	OrigOps     int    `json:"orig_ops"`
	Fingerprint string `json:"fingerprint"`
	// Alternates are unminimised scripts of the first few occurrences. A
	// violation that depends on state the process accumulated over earlier
	// runs does not reproduce from a script minimised inside that process;
	// the driver then tries these in fresh processes and minimises there.
	Alternates []string `json:"alternates,omitempty"`
}

// WorkerResult is what one worker process writes for the driver to merge.
type WorkerResult struct {
	World       string            `json:"world"`
	Tier        string            `json:"tier"`
	Seed        uint64            `json:"seed"`
	From        int               `json:"from"`
	To          int               `json:"to"`
	Runs        int               `json:"runs"`
	Faults      map[string]int64  `json:"faults"`
	Probes      map[string]int64  `json:"probes"`
	SimSeconds  float64           `json:"sim_seconds"`
	NonTrivial  []string          `json:"nontrivial_fp"`
	Violations  []ViolationReport `json:"violations"`
	Panics      int               `json:"panics"`
	PanicSample string            `json:"panic_sample,omitempty"`
	Samples     []*Script         `json:"samples"`
	FPByRun     map[string]string `json:"fp_by_run,omitempty"`
	FPRByRun    map[string]string `json:"fpr_by_run,omitempty"`
	PathVaries  int               `json:"path_varies,omitempty"`
	Infra       []string          `json:"infra,omitempty"`
	WallS       float64           `json:"wall_s"`
	DoubleRuns  int               `json:"double_runs"`
	Tags        []string          `json:"tags,omitempty"`
	Replayed    *ReplayResult     `json:"replayed,omitempty"`
}

type ReplayResult struct {
	Classes     []string `json:"classes"`
	Fingerprint string   `json:"fingerprint"`
	Details     []string `json:"details"`
}

func hasRace(classes []string) bool {
	for _, c := range classes {
		if strings.Contains(c, "/race/") {
			return true
		}
	}
	return false
}

func envInt(k string, def int) int {
	if v := os.Getenv(k); v != "" {
		if n, err := strconv.Atoi(v); err == nil {
			return n
		}
	}
	return def
}

func envU64(k string, def uint64) uint64 {
	if v := os.Getenv(k); v != "" {
		if n, err := strconv.ParseUint(v, 10, 64); err == nil {
			return n
		}
		if n, err := strconv.ParseInt(v, 10, 64); err == nil {
			return uint64(n)
		}
	}
	return def
}

var classSan = regexp.MustCompile(`[^A-Za-z0-9_.-]+`)

// runOnce executes a script in its own subtest so that cryptotest's global
// random source and, in race builds, the race-error accounting are per run.
func runOnce(t *testing.T, w World, s *Script, name string) (out *Outcome) {
	t.Run(name, func(t *testing.T) {
		cryptotest.SetGlobalRandom(t, s.EntropySeed)
		defer func() {
			// A panic that escapes the executor (library code reached outside a
			// Guard) is C04 matter like any other panic: counted, shown in the
			// evidence, never a verdict of the property being checked.
			if r := recover(); r != nil {
				out = NewOutcome()
				out.Panics = 1
				out.Probe("panic_escaped_the_executor")
				st := string(debug.Stack())
				if len(st) > 1500 {
					st = st[:1500]
				}
				out.PanicSample = fmt.Sprintf("escaped: %v\n%s", r, st)
				out.FP.Step("escaped-panic")
			}
		}()
		out = w.Execute(t, s)
		if hook := RaceHook; hook != nil {
			hook(t, s, out)
		}
	})
	if out == nil {
		out = NewOutcome()
		out.Violations = nil
		out.Notes["infra"] = "executor did not return an outcome (subtest aborted)"
	}
	return out
}

// Property is the id of the property being checked (SIM_PROPERTY); worlds that
// serve two properties (auth: C05/C06) read it.
var Property string

// RaceHook, when set by a world (conc), is called at the end of every run
// inside the run's subtest; it lets the world turn race-detector state into
// violations.
var RaceHook func(t *testing.T, s *Script, o *Outcome)

// WorkerMain is the body of every world's TestSim. Configuration comes from
// the environment because `go test` binaries are the only place synctest and
// cryptotest work.
func WorkerMain(t *testing.T, w World) {
	Property = os.Getenv("SIM_PROPERTY")
	out := os.Getenv("SIM_OUT")
	if out == "" {
		t.Skip("SIM_OUT not set: this test binary is driven by /verif/bin/check")
	}
	start := time.Now()
	res := &WorkerResult{
		World: w.Name(), Tier: os.Getenv("SIM_TIER"), Seed: envU64("VERIF_SEED", 1),
		From: envInt("SIM_FROM", 0), To: envInt("SIM_TO", 1),
		Faults: map[string]int64{}, Probes: map[string]int64{}, FPByRun: map[string]string{}, FPRByRun: map[string]string{},
	}
	if res.Tier == "" {
		res.Tier = "quick"
	}
	minBudget, minEach, minSpent := 40*time.Second, 20*time.Second, time.Duration(0)
	if res.Tier == "thorough" {
		minBudget, minEach = 15*time.Minute, 90*time.Second
	}
	defer func() {
		res.WallS = time.Since(start).Seconds()
		b, _ := json.Marshal(res)
		if err := os.WriteFile(out, b, 0o644); err != nil {
			t.Fatalf("write %s: %v", out, err)
		}
	}()

	if rp := os.Getenv("SIM_REPLAY"); rp != "" {
		s, err := LoadScript(rp)
		if err != nil {
			res.Infra = append(res.Infra, "replay: "+err.Error())
			return
		}
		o := runOnce(t, w, s, "replay")
		rr := &ReplayResult{Fingerprint: o.FP.Sum()}
		for _, v := range o.Violations {
			rr.Classes = append(rr.Classes, v.Class)
			rr.Details = append(rr.Details, v.Detail)
		}
		// The race detector's shadow memory keeps four accesses per word and
		// replaces them pseudo-randomly, so whether it still remembers the
		// first access of a conflicting pair varies from execution to
		// execution. The schedule is identical every time; only the oracle's
		// memory is not. Give it a few more identical executions.
		if os.Getenv("SIM_RACE") == "1" && s.Expect != nil && strings.Contains(s.Expect.ViolationClass, "/race/") {
			for k := 0; k < 6 && !hasRace(rr.Classes); k++ {
				o2 := runOnce(t, w, s, fmt.Sprintf("replay.again%d", k))
				for _, v := range o2.Violations {
					if strings.Contains(v.Class, "/race/") {
						rr.Classes = append(rr.Classes, v.Class)
						rr.Details = append(rr.Details, v.Detail)
					}
				}
			}
		}
		res.Replayed = rr
		res.Runs = 1
		return
	}

	budget := time.Duration(envInt("SIM_BUDGET_S", 0)) * time.Second
	doubleEvery := envInt("SIM_DOUBLE_EVERY", 0)
	recordBelow := envInt("SIM_RECORD_FP_BELOW", 0)
	replayDir := os.Getenv("SIM_REPLAY_DIR")
	seen := map[string]int{} // class -> index in res.Violations
	nt := map[string]bool{}
	tags := map[string]bool{}

	for i := res.From; i < res.To; i++ {
		if budget > 0 && time.Since(start) > budget {
			break
		}
		runSeed := Mix(res.Seed, uint64(i))
		g := NewRNG(runSeed)
		s := w.Generate(g, res.Tier)
		s.World = w.Name()
		s.Seed = runSeed
		if s.EntropySeed == 0 {
			s.EntropySeed = Mix(runSeed, 0xE17)
		}
		o := runOnce(t, w, s, fmt.Sprintf("r%d", i))
		res.Runs++
		fp := o.FP.Sum()
		if i < recordBelow {
			res.FPByRun[strconv.Itoa(i)] = fp
			if o.HasFPR {
				res.FPRByRun[strconv.Itoa(i)] = o.FPR.Sum()
			}
		}
		if msg, ok := o.Notes["infra"]; ok {
			res.Infra = append(res.Infra, fmt.Sprintf("run %d: %s", i, msg))
		}
		if doubleEvery > 0 && i%doubleEvery == 0 {
			o2 := runOnce(t, w, s, fmt.Sprintf("r%d.again", i))
			res.DoubleRuns++
			if o2.FP.Sum() != fp && o.HasFPR && o2.HasFPR && o.FPR.Sum() == o2.FPR.Sum() {
				res.PathVaries++
			} else if o2.FP.Sum() != fp {
				res.Infra = append(res.Infra, fmt.Sprintf("nondeterminism: run %d seed %d fingerprints %s vs %s", i, runSeed, fp, o2.FP.Sum()))
			}
		}
		for k, v := range o.Faults {
			res.Faults[k] += v
		}
		for k, v := range o.Probes {
			res.Probes[k] += v
		}
		res.SimSeconds += o.SimSeconds
		res.Panics += o.Panics
		if res.PanicSample == "" && o.PanicSample != "" {
			res.PanicSample = o.PanicSample
		}
		if o.NonTrivial {
			nt[fp[:16]] = true
		}
		for tg := range o.Tags {
			tags[tg] = true
		}
		if len(res.Samples) < 3 && (o.NonTrivial || i == res.From) {
			res.Samples = append(res.Samples, s)
		}
		for _, v := range o.Violations {
			if idx, ok := seen[v.Class]; ok {
				res.Violations[idx].Count++
				if replayDir != "" && len(res.Violations[idx].Alternates) < 4 {
					alt := s.Clone()
					alt.Expect = &Expect{ViolationClass: v.Class, Fingerprint: fp, Detail: v.Detail}
					name := strings.Trim(classSan.ReplaceAllString(v.Class, "_"), "_")
					if len(name) > 110 {
						name = name[:110]
					}
					ap := filepath.Join(replayDir, fmt.Sprintf("%s-%d.alt.json", name, runSeed))
					if alt.Save(ap) == nil {
						res.Violations[idx].Alternates = append(res.Violations[idx].Alternates, ap)
					}
				}
				continue
			}
			// minimisation has a budget per worker: a change that breaks a
			// property in dozens of ways must end in a report, not in the watchdog
			left := minBudget - minSpent
			if left > minEach {
				left = minEach
			}
			if left < time.Second {
				left = 0 // only the base execution; the script stays as it is
			}
			t0 := time.Now()
			min, mo := Minimise(t, w, s, v.Class, 400, left)
			minSpent += time.Since(t0)
			vr := ViolationReport{Class: v.Class, Detail: v.Detail, RunSeed: runSeed, RunIndex: i, Count: 1,
				OrigOps: len(s.Ops) + len(s.Faults) + len(s.Sched) + len(s.Boots),
				MinOps:  len(min.Ops) + len(min.Faults) + len(min.Sched) + len(min.Boots), Fingerprint: mo.FP.Sum()}
			for _, mv := range mo.Violations {
				if mv.Class == v.Class {
					vr.Detail = mv.Detail
					break
				}
			}
			min.Expect = &Expect{ViolationClass: v.Class, Fingerprint: mo.FP.Sum(), Detail: vr.Detail}
			if len(mo.Notes) > 0 {
				min.Notes = map[string]string{}
				for _, k := range SortedKeys(mo.Notes) {
					min.Notes[k] = mo.Notes[k]
				}
			}
			if replayDir != "" {
				_ = os.MkdirAll(replayDir, 0o755)
				name := strings.Trim(classSan.ReplaceAllString(v.Class, "_"), "_")
				if len(name) > 120 {
					name = name[:120]
				}
				p := filepath.Join(replayDir, fmt.Sprintf("%s-%d.json", name, runSeed))
				if err := min.Save(p); err != nil {
					res.Infra = append(res.Infra, "save replay: "+err.Error())
				}
				vr.Replay = p
				if vr.MinOps < vr.OrigOps {
					orig := s.Clone()
					orig.Expect = &Expect{ViolationClass: v.Class, Fingerprint: fp, Detail: v.Detail}
					ap := filepath.Join(replayDir, fmt.Sprintf("%s-%d.alt.json", name, runSeed))
					if orig.Save(ap) == nil {
						vr.Alternates = append(vr.Alternates, ap)
					}
				}
			}
			seen[v.Class] = len(res.Violations)
			res.Violations = append(res.Violations, vr)
		}
	}
	for k := range nt {
		res.NonTrivial = append(res.NonTrivial, k)
	}
	for k := range tags {
		res.Tags = append(res.Tags, k)
	}
}
