package conc

import (
	"time"

	"github.com/go-i2p/common/certificate"
	"github.com/go-i2p/common/data"
	"github.com/go-i2p/common/destination"
	"github.com/go-i2p/common/key_certificate"
	"github.com/go-i2p/common/keys_and_cert"
	"github.com/go-i2p/common/lease"
	"github.com/go-i2p/common/offline_signature"
	"github.com/go-i2p/common/router_address"
	"github.com/go-i2p/common/router_identity"
	"github.com/go-i2p/common/session_key"
	"github.com/go-i2p/common/session_tag"
	"github.com/go-i2p/common/signature"

	"i2psim.local/sim/engine"
	"i2psim.local/sim/refmodel"
)

// smallKinds are values built by the library's non-signing constructors
// (certificates, key certificates, identities, mappings, strings, integers,
// dates, leases, addresses, …). The property speaks of "parsed or constructed"
// values; a constructor may leave a value in another internal state than the
// parser does (spare capacity in a slice, a shared backing array), so the same
// read-only calls are scheduled on these too.
var smallKinds = []string{"cert", "certb", "keycert", "kac", "rident", "dest", "mapping", "mappingv", "i2pstring", "integer", "date", "hash",
	"lease", "lease2", "raddr", "sig", "sesskey", "sesstag", "eciestag", "offsignew"}

func smallShape(r *engine.RNG, kind string) *engine.Shape {
	sh := &engine.Shape{Kind: kind, Seed: r.Uint64() | 1, IdentSeed: 1 + uint64(r.Intn(6)), Cert: "key"}
	sh.Sig, sh.Crypto = r.PickInt(7, 7, 11, 0, 1, 2), r.PickInt(4, 0)
	if sh.Sig == 0 {
		sh.Crypto = 0
	}
	switch kind {
	case "cert":
		sh.N = r.PickInt(0, 1, 2, 3, 4, 5)
		sh.Size = r.PickInt(0, 1, 4, 7, 40)
	case "integer":
		sh.Size = r.Range(1, 8)
		sh.U = []uint64{r.Uint64() >> uint(64-8*sh.Size+1)}
	case "date":
		sh.U = []uint64{uint64(4102444800000 + r.Intn(1<<40))}
	case "i2pstring":
		sh.Str = r.PickStr("", "a", "NTCP2", "router.version", string(make([]byte, 255)))
	case "mapping", "mappingv", "raddr":
		n := r.Range(0, 4)
		all := [][2]string{{"caps", "fR"}, {"host", "127.0.0.1"}, {"netId", "2"}, {"port", "1234"}}
		sh.Opts = all[:n]
		sh.Str = r.PickStr("NTCP2", "SSU2", "x")
		sh.U = []uint64{uint64(r.Intn(256))}
	case "lease", "lease2":
		sh.U = []uint64{uint64(r.Intn(1 << 31)), uint64(4102444800 + r.Intn(1<<20))}
	case "sig", "offsignew":
		sh.Sig = r.PickInt(7, 7, 11, 8, 0, 1, 2, 3)
		sh.N = r.PickInt(7, 11, 0, 1)
	}
	return sh
}

// constructSmall builds the value of a small kind; every call gives a fresh
// instance with the same content.
func constructSmall(sh *engine.Shape) (any, bool) {
	id := refmodel.NewIdentity(sh.IdentSeed, sh.Sig, sh.Crypto, "key", 0)
	parsed := func() *keys_and_cert.KeysAndCert {
		k, _, err := keys_and_cert.ReadKeysAndCert(append([]byte(nil), id.Bytes...))
		if err != nil {
			return nil
		}
		return k
	}
	switch sh.Kind {
	case "cert":
		c, err := certificate.NewCertificateWithType(uint8(sh.N), refmodel.Expand(sh.Seed, "certpay", sh.Size))
		return c, err == nil && c != nil
	case "certb":
		b, err := certificate.NewCertificateBuilder().WithKeyTypes(sh.Sig, sh.Crypto)
		if err != nil || b == nil {
			return nil, false
		}
		c, err := b.Build()
		return c, err == nil && c != nil
	case "keycert":
		k, err := key_certificate.NewKeyCertificateWithTypes(sh.Sig, sh.Crypto)
		return k, err == nil && k != nil
	case "kac", "rident", "dest":
		p := parsed()
		if p == nil {
			return nil, false
		}
		pub, e1 := p.PublicKey()
		spk, e2 := p.SigningPublicKey()
		if e1 != nil || e2 != nil || p.KeyCertificate == nil {
			return nil, false
		}
		pad := append([]byte(nil), p.Padding...)
		switch sh.Kind {
		case "kac":
			k, err := keys_and_cert.NewKeysAndCert(p.KeyCertificate, pub, pad, spk)
			return k, err == nil && k != nil
		case "rident":
			cert := p.Certificate()
			ri, err := router_identity.NewRouterIdentity(pub, spk, cert, pad)
			return ri, err == nil && ri != nil
		default:
			k, err := keys_and_cert.NewKeysAndCert(p.KeyCertificate, pub, pad, spk)
			if err != nil || k == nil {
				return nil, false
			}
			d, err := destination.NewDestination(k)
			return d, err == nil && d != nil
		}
	case "mapping":
		m := map[string]string{}
		for _, kv := range sh.Opts {
			m[kv[0]] = kv[1]
		}
		mp, err := data.GoMapToMapping(m)
		return mp, err == nil && mp != nil
	case "mappingv":
		mv := data.NewMappingValues(len(sh.Opts))
		var err error
		for _, kv := range sh.Opts {
			if mv, err = mv.Add(kv[0], kv[1]); err != nil {
				return nil, false
			}
		}
		mp, err := data.ValuesToMapping(mv)
		return mp, err == nil && mp != nil
	case "i2pstring":
		s, err := data.NewI2PString(sh.Str)
		return &s, err == nil
	case "integer":
		i, err := data.NewIntegerFromInt(int(sh.U[0]&(1<<62-1)), sh.Size)
		return i, err == nil && i != nil
	case "date":
		d, err := data.NewDateFromMillis(int64(sh.U[0]))
		return d, err == nil && d != nil
	case "hash":
		var a [32]byte
		copy(a[:], refmodel.Expand(sh.Seed, "hash", 32))
		h := data.NewHash(a)
		return &h, true
	case "lease":
		var a [32]byte
		copy(a[:], refmodel.Expand(sh.Seed, "gw", 32))
		l, err := lease.NewLease(data.NewHash(a), uint32(sh.U[0]), time.Unix(int64(sh.U[1]), 0))
		return l, err == nil && l != nil
	case "lease2":
		var a [32]byte
		copy(a[:], refmodel.Expand(sh.Seed, "gw", 32))
		l, err := lease.NewLease2(data.NewHash(a), uint32(sh.U[0]), time.Unix(int64(sh.U[1]), 0))
		return l, err == nil && l != nil
	case "raddr":
		m := map[string]string{}
		for _, kv := range sh.Opts {
			m[kv[0]] = kv[1]
		}
		ra, err := router_address.NewRouterAddress(uint8(sh.U[0]), time.Time{}, sh.Str, m)
		return ra, err == nil && ra != nil
	case "sig":
		s, err := signature.NewSignatureFromBytes(refmodel.Expand(sh.Seed, "sig", refmodel.SigLen(sh.Sig)), sh.Sig)
		return &s, err == nil
	case "sesskey":
		var a [session_key.SESSION_KEY_SIZE]byte
		copy(a[:], refmodel.Expand(sh.Seed, "sk", len(a)))
		k := session_key.NewSessionKeyFromArray(a)
		return &k, true
	case "sesstag":
		var a [session_tag.SessionTagSize]byte
		copy(a[:], refmodel.Expand(sh.Seed, "st", len(a)))
		k := session_tag.NewSessionTagFromArray(a)
		return &k, true
	case "eciestag":
		var a [session_tag.ECIESSessionTagSize]byte
		copy(a[:], refmodel.Expand(sh.Seed, "et", len(a)))
		k := session_tag.NewECIESSessionTagFromArray(a)
		return &k, true
	case "offsignew":
		tk := refmodel.NewSignKey(sh.Seed, sh.N)
		o, err := offline_signature.NewOfflineSignature(4102444800, uint16(sh.N), tk.Pub, refmodel.Expand(sh.Seed, "offsig", refmodel.SigLen(sh.Sig)), uint16(sh.Sig))
		return &o, err == nil
	}
	return nil, false
}
