//go:build !simyield

package conc

// Instrumented reports whether the library under test carries yield points.
// Without the simyield tag the world compiles against the plain repository:
// no yields, no preemption, no globals snapshot (used only for vetting).
const Instrumented = false

func installHook() {}

func libraryGlobals() map[string]any { return map[string]any{} }

var _ = yieldHook
var _ = lockHook
