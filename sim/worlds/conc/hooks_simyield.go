//go:build simyield

package conc

import (
	common "github.com/go-i2p/common"
	"github.com/go-i2p/common/base32"
	"github.com/go-i2p/common/base64"
	"github.com/go-i2p/common/certificate"
	"github.com/go-i2p/common/data"
	"github.com/go-i2p/common/destination"
	"github.com/go-i2p/common/encrypted_leaseset"
	"github.com/go-i2p/common/key_certificate"
	"github.com/go-i2p/common/keys_and_cert"
	"github.com/go-i2p/common/lease"
	"github.com/go-i2p/common/lease_set"
	"github.com/go-i2p/common/lease_set2"
	"github.com/go-i2p/common/meta_leaseset"
	"github.com/go-i2p/common/offline_signature"
	"github.com/go-i2p/common/router_address"
	"github.com/go-i2p/common/router_identity"
	"github.com/go-i2p/common/router_info"
	"github.com/go-i2p/common/session_key"
	"github.com/go-i2p/common/session_tag"
	"github.com/go-i2p/common/signature"
	"github.com/go-i2p/common/zzsimyield"
)

// Instrumented reports whether the library under test carries yield points.
const Instrumented = true

func installHook() { zzsimyield.Hook, zzsimyield.LockHook = yieldHook, lockHook }

// libraryGlobals returns pointers to every package-level variable of every
// library package (from the files the instrumenter generates).
func libraryGlobals() map[string]any {
	out := map[string]any{}
	add := func(pkg string, m map[string]any) {
		for k, v := range m {
			out[pkg+"."+k] = v
		}
	}
	add("common", common.ZZSimGlobals())
	add("base32", base32.ZZSimGlobals())
	add("base64", base64.ZZSimGlobals())
	add("certificate", certificate.ZZSimGlobals())
	add("data", data.ZZSimGlobals())
	add("destination", destination.ZZSimGlobals())
	add("encrypted_leaseset", encrypted_leaseset.ZZSimGlobals())
	add("key_certificate", key_certificate.ZZSimGlobals())
	add("keys_and_cert", keys_and_cert.ZZSimGlobals())
	add("lease", lease.ZZSimGlobals())
	add("lease_set", lease_set.ZZSimGlobals())
	add("lease_set2", lease_set2.ZZSimGlobals())
	add("meta_leaseset", meta_leaseset.ZZSimGlobals())
	add("offline_signature", offline_signature.ZZSimGlobals())
	add("router_address", router_address.ZZSimGlobals())
	add("router_identity", router_identity.ZZSimGlobals())
	add("router_info", router_info.ZZSimGlobals())
	add("session_key", session_key.ZZSimGlobals())
	add("session_tag", session_tag.ZZSimGlobals())
	add("signature", signature.ZZSimGlobals())
	return out
}
