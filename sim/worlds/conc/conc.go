// Package conc is the C18 world: 2..4 reader tasks execute scripted read-only
// calls on one shared parsed or constructed value while a seeded scheduler
// decides, at yield points inserted before every library statement, which
// task runs.
package conc

import (
	"fmt"
	"os"
	"reflect"
	"sort"
	"strings"
	"sync"
	"testing"

	"github.com/go-i2p/common/key_certificate"
	"github.com/go-i2p/common/offline_signature"
	"github.com/go-i2p/common/signature"

	"i2psim.local/sim/adapters"
	"i2psim.local/sim/consume"
	"i2psim.local/sim/engine"
	"i2psim.local/sim/obs"
	"i2psim.local/sim/refmodel"
	"i2psim.local/sim/snap"
	"i2psim.local/sim/worlds/auth"
)

type World struct{}

func (World) Name() string { return "conc" }

var constructKinds = []string{"rinfo", "leaseset", "ls2", "els", "offsig"}

func constructShape(r *engine.RNG, kind string) *engine.Shape {
	sh := &engine.Shape{Kind: kind, Seed: r.Uint64() | 1, IdentSeed: 1 + uint64(r.Intn(6)), Cert: "key", Sig: 7, Crypto: 4}
	switch kind {
	case "rinfo":
		sh.U = []uint64{1 + r.Uint64()>>22, 0}
		for i, n := 0, r.Intn(3); i < n; i++ {
			a := engine.Shape{Kind: "raddr", U: []uint64{uint64(r.Intn(256)), 0}, Str: r.PickStr("NTCP2", "SSU2")}
			a.Opts = [][2]string{{"host", "127.0.0.1"}, {"port", "1234"}, {"caps", "BC"}}[:r.Range(0, 3)]
			sh.Sub = append(sh.Sub, a)
		}
		sh.Opts = [][2]string{{"caps", "fR"}, {"netId", "2"}, {"router.version", "0.9.64"}}[:r.Range(0, 3)]
	case "leaseset":
		sh.Crypto = 0
		sh.N = r.Range(0, 4)
		for i := 0; i < sh.N; i++ {
			sh.U = append(sh.U, uint64(4102444800000+r.Intn(1<<30)))
		}
	case "ls2":
		sh.U = []uint64{4102444800, 600, 0}
		sh.N = r.Range(1, 4)
		sh.Size = r.Range(1, 2)
		for i := 0; i < sh.N; i++ {
			sh.U = append(sh.U, 4102444800+uint64(r.Intn(1<<20)))
		}
		if r.Chance(1, 3) {
			sh.Offline = &engine.OfflineShape{Transient: 7, Expires: 4102444800, Seed: 100 + uint64(r.Intn(4))}
		}
		if r.Chance(1, 2) {
			sh.Opts = [][2]string{{"a", "1"}, {"b", "2"}}
		}
	case "els":
		sh.Size = r.Range(61, 200)
		sh.U = []uint64{4102444800, 600, 0}
	case "offsig":
		sh.Offline = &engine.OfflineShape{Transient: r.PickInt(7, 11, 1), Expires: 4102444800, Seed: 100 + uint64(r.Intn(4))}
	}
	return sh
}

func (World) Generate(r *engine.RNG, tier string) *engine.Script {
	s := &engine.Script{Property: "C18", Config: map[string]int64{}}
	op := engine.Op{Op: "value"}
	if r.Chance(1, 4) {
		k := constructKinds[r.Intn(len(constructKinds))]
		op.Struct = "construct:" + k
		op.Shape = constructShape(r.Fork(), k)
	} else if r.Chance(1, 5) {
		k := smallKinds[r.Intn(len(smallKinds))]
		op.Struct = "new:" + k
		op.Shape = smallShape(r.Fork(), k)
	} else {
		a := adapters.All[r.Intn(len(adapters.All))]
		if r.Chance(1, 2) {
			a = adapters.ByName(r.PickStr("ReadCertificate", "NewKeyCertificate", "ReadKeysAndCert", "ReadDestination", "ReadRouterIdentity", "ReadRouterAddress", "ReadRouterInfo",
				"ReadLeaseSet", "ReadLeaseSet2", "ReadMetaLeaseSet", "ReadEncryptedLeaseSet", "ReadOfflineSignature", "ReadMapping", "ReadSignature"))
		}
		op.Struct = a.Name
		op.Shape = a.Gen(r.Fork())
	}
	awayFromNow(op.Shape)
	s.Ops = append(s.Ops, op)
	nt := r.Range(2, 4)
	s.Config["tasks"] = int64(nt)
	for t := 0; t < nt; t++ {
		for c, n := 0, r.Range(1, 4); c < n; c++ {
			sel := int64(r.Intn(1 << 16))
			if r.Chance(1, 3) {
				sel = -1 - int64(r.Intn(5)) // one of the special calls
			}
			s.Ops = append(s.Ops, engine.Op{Op: "call", N: []int64{int64(t), sel}})
		}
	}
	for d, n := 0, r.PickInt(0, 1, 2, 3, 4, 6); d < n; d++ {
		s.Sched = append(s.Sched, engine.Sched{AfterYield: int64(r.Intn(1000)), Task: r.Intn(nt)})
	}
	return s
}

// frameCache holds the reference bytes of the run's value op: the shared value
// and every private twin are parsed from the very same bytes (signing again
// would draw fresh entropy for DSA/ECDSA and give different signature bytes).
var frameCache struct {
	op    *engine.Op
	bytes []byte
	ok    bool
}

// makeValue builds the value of a "value" op; every call gives a fresh,
// private instance of the same value.
func makeValue(op *engine.Op) (val any, bytes []byte, ad *adapters.Adapter, ok bool) {
	if strings.HasPrefix(op.Struct, "new:") {
		if op.Shape == nil {
			return nil, nil, nil, false
		}
		v, ok := constructSmall(op.Shape)
		return v, nil, nil, ok
	}
	if strings.HasPrefix(op.Struct, "construct:") {
		// the instance that is handed out is never touched by the harness (no
		// warming call that could fill a lazy cache before the tasks start);
		// its serialisation comes from a second, discarded instance
		v, ok := auth.Construct(op.Shape)
		if !ok {
			return nil, nil, nil, false
		}
		if frameCache.op != op {
			frameCache.op, frameCache.ok, frameCache.bytes = op, false, nil
			if _, b, ok2 := auth.ConstructWithBytes(op.Shape); ok2 {
				frameCache.bytes, frameCache.ok = b, true
			}
		}
		return v, frameCache.bytes, nil, true
	}
	ad = adapters.ByName(op.Struct)
	if ad == nil || op.Shape == nil {
		return nil, nil, nil, false
	}
	if frameCache.op != op {
		frameCache.op, frameCache.ok, frameCache.bytes = op, false, nil
		if f, err := refmodel.Build(op.Shape); err == nil {
			frameCache.bytes, frameCache.ok = f.Bytes, true
		}
	}
	if !frameCache.ok {
		return nil, nil, nil, false
	}
	res := ad.Parse(append([]byte(nil), frameCache.bytes...), ad.Arg(op.Shape))
	if !res.OK || res.Val == nil {
		return nil, nil, ad, false
	}
	return res.Val, frameCache.bytes, ad, true
}

// ptrTo returns a pointer-typed reflect.Value for v (values are boxed so that
// pointer-receiver methods are callable and the snapshot can see the memory).
func ptrTo(v any) reflect.Value {
	rv := reflect.ValueOf(v)
	if rv.Kind() == reflect.Ptr {
		return rv
	}
	p := reflect.New(rv.Type())
	p.Elem().Set(rv)
	return p
}

// callable is one read-only call. twin is a private instance of the same
// value built by the controller beforehand (never inside the scheduled
// region: constructors range over Go maps, whose iteration order the
// simulator cannot pin, and that would change the yield count of a run).
type callable struct {
	name string
	run  func(shared reflect.Value, twin reflect.Value) string
}

var parserForKind = map[string]string{"rinfo": "ReadRouterInfo", "leaseset": "ReadLeaseSet", "ls2": "ReadLeaseSet2", "els": "ReadEncryptedLeaseSet", "offsig": "ReadOfflineSignature"}

// parseAgain parses the value's bytes once more (parsers read the
// package-level size tables on every parse).
func parseAgain(op *engine.Op, b []byte) string {
	name := op.Struct
	if strings.HasPrefix(name, "construct:") {
		name = parserForKind[strings.TrimPrefix(name, "construct:")]
	}
	ad := adapters.ByName(name)
	if ad == nil || b == nil {
		return "n/a"
	}
	res := ad.Parse(append([]byte(nil), b...), ad.Arg(op.Shape))
	if !res.OK || res.Val == nil {
		return "rejected"
	}
	return obs.Observe(res.Val, obsOpt)
}

// the full observation calls, besides every argument-free accessor, x.Equals(x)
// and the read-only methods that take simple arguments (two synthesised
// argument sets each), on the value and on its nested objects
var obsOpt = &obs.Options{SelfEquals: true, Args: consume.SynthArgs, ArgMethod: func(n string) bool {
	return consume.ReadOnlyName(n) && n != "Equals" && n != "Equal"
}}

// callables lists what a task may call on the value: every exported
// argument-free method (mutators and generators excluded), Equals/Equal
// against a private twin, and the specials.
func callables(pv reflect.Value, op *engine.Op, valueBytes []byte) (methods []callable, specials []callable) {
	pt := pv.Type()
	tname := pt.Elem().Name()
	for i := 0; i < pt.NumMethod(); i++ {
		m := pt.Method(i)
		idx := i
		if !m.IsExported() || m.Type.IsVariadic() || m.Type.NumOut() == 0 {
			continue
		}
		if obs.BaseDeny["."+m.Name] || m.Name == "AddAddress" {
			continue
		}
		switch {
		case m.Type.NumIn() == 1:
			methods = append(methods, callable{tname + "." + m.Name, func(sh reflect.Value, _ reflect.Value) string {
				outs := sh.Method(idx).Call(nil)
				c := obs.Results(outs, obsOpt)
				keep(outs, c)
				return c
			}})
		case m.Type.NumIn() >= 2 && m.Type.NumIn() <= 3 && !(m.Name == "Equals" || m.Name == "Equal") && consume.ReadOnlyName(m.Name):
			// read-only methods that take simple arguments (GetOption, HasOption,
			// CheckOption, IntroducerHashString, GetEntry, FindEntriesByType,
			// VerifySignature(key bytes), ...): two fixed argument sets each
			for variant := 0; variant < 2; variant++ {
				args, ok := consume.SynthArgs(m.Type, variant)
				if !ok {
					break
				}
				methods = append(methods, callable{fmt.Sprintf("%s.%s(args%d)", tname, m.Name, variant), func(sh reflect.Value, _ reflect.Value) string {
					return obs.Results(sh.Method(idx).Call(args), obsOpt)
				}})
			}
		case m.Type.NumIn() == 2 && (m.Name == "Equals" || m.Name == "Equal"):
			at := m.Type.In(1)
			methods = append(methods, callable{tname + "." + m.Name + "(twin)", func(sh reflect.Value, tw reflect.Value) string {
				if !tw.IsValid() {
					return "n/a"
				}
				var arg reflect.Value
				switch {
				case tw.Type() == at:
					arg = tw
				case tw.Elem().Type() == at:
					arg = tw.Elem()
				default:
					return "n/a"
				}
				return obs.Results(sh.Method(idx).Call([]reflect.Value{arg}), obsOpt)
			}})
		}
	}
	specials = []callable{
		{"@observe-everything", func(sh reflect.Value, _ reflect.Value) string {
			return obs.Observe(sh.Interface(), obsOpt)
		}},
		{"@size-lookups", func(reflect.Value, reflect.Value) string {
			var sb strings.Builder
			for _, st := range []int{0, 1, 2, 3, 4, 7, 8, 11, 12, 65535} {
				for _, ct := range []int{0, 1, 4, 5, 7, 9} {
					ks, err := key_certificate.GetKeySizes(st, ct)
					fmt.Fprintf(&sb, "%v%v;", ks, err == nil)
				}
				a, e1 := key_certificate.GetSigningKeySize(st)
				b, e2 := key_certificate.GetSignatureSize(st)
				c, e3 := signature.SignatureSize(st)
				d, e4 := key_certificate.GetCryptoKeySize(st)
				fmt.Fprintf(&sb, "%d%v %d%v %d%v %d%v %d %d|", a, e1 == nil, b, e2 == nil, c, e3 == nil, d, e4 == nil,
					offline_signature.SigningPublicKeySize(uint16(st)), offline_signature.SignatureSize(uint16(st)))
			}
			return sb.String()
		}},
		{"@parse-again", func(reflect.Value, reflect.Value) string { return parseAgain(op, valueBytes) }},
		{"@hand-to-consumers", func(sh reflect.Value, _ reflect.Value) string { return consume.Consumers(sh.Interface()) }},
		{"@observe-twice", func(sh reflect.Value, _ reflect.Value) string {
			a := obs.Observe(sh.Interface(), obsOpt)
			b := obs.Observe(sh.Interface(), obsOpt)
			if a != b {
				return "unstable:" + a + "|" + b
			}
			return a
		}},
	}
	return
}

func private2(op *engine.Op) reflect.Value {
	v, _, _, ok := makeValue(op)
	if !ok {
		return reflect.Value{}
	}
	return ptrTo(v)
}

// kept remembers what a call returned (the values themselves, not copies)
// and their canonical form at return time; the controller re-reads them after
// all tasks have finished (a result that changes later was handed out from a
// pooled or shared buffer).
type kept struct {
	vals  []reflect.Value
	canon string
}

type taskCall struct {
	kept               []kept
	twinSolo, twinConc reflect.Value
	c                  callable
	want               string
	got                string
	yields             int64
	panic              bool
	unstable           bool // the call's result varies when it is repeated alone
}

// Execute runs outside a synctest bubble: in a -race build the testing
// package fails the bubble's inner test when the detector reports, and
// synctest.Test then stops the outer test before the outcome could be
// returned. Time-dependent accessors stay deterministic because Generate
// keeps every expiry decades away from the real clock (awayFromNow).
func (World) Execute(t *testing.T, s *engine.Script) *engine.Outcome {
	o := engine.NewOutcome()
	execute(s, o)
	return o
}

// awayFromNow moves every second / millisecond timestamp of a shape out of
// the window 2017..2042, so that IsExpired / Validate give the same answer
// whenever the check is run (the conc world reads the real clock).
func awayFromNow(sh *engine.Shape) {
	if sh == nil {
		return
	}
	const lo, hi = 1500000000, 2300000000
	fix := func(v uint64) uint64 {
		if v >= lo && v <= hi {
			return v + 900000000
		}
		if v >= lo*1000 && v <= hi*1000 {
			return v + 900000000000
		}
		return v
	}
	for i := range sh.U {
		sh.U[i] = fix(sh.U[i])
	}
	if sh.Offline != nil {
		sh.Offline.Expires = fix(sh.Offline.Expires)
	}
	for i := range sh.Sub {
		awayFromNow(&sh.Sub[i])
	}
}

// keepSink is where the running call deposits its raw results; each task sets
// it to its own call record before calling (one task runs at a time).
var keepSink *taskCall

func keep(vals []reflect.Value, canon string) {
	if keepSink != nil {
		keepSink.kept = append(keepSink.kept, kept{vals, canon})
	}
}

func safeCall(c callable, shared reflect.Value, twin reflect.Value) (res string, panicked bool) {
	defer func() {
		if r := recover(); r != nil {
			res, panicked = fmt.Sprintf("panic: %v", r), true
		}
	}()
	return c.run(shared, twin), false
}

func execute(s *engine.Script, o *engine.Outcome) {
	var vop *engine.Op
	for i := range s.Ops {
		if s.Ops[i].Op == "value" {
			vop = &s.Ops[i]
			break
		}
	}
	if vop == nil {
		return
	}
	installHook()
	frameCache.op = nil
	var shared any
	var valueBytes []byte
	var ok bool
	if o.Guard("make value", func() { shared, valueBytes, _, ok = makeValue(vop) }) || !ok {
		o.Probe("value_not_accepted:" + vop.Struct)
		o.FP.Step("no-value", vop.Struct)
		return
	}
	sharedPtr := ptrTo(shared)
	private := func() reflect.Value { return private2(vop) }
	methods, specials := callables(sharedPtr, vop, valueBytes)
	nt := int(s.Cfg("tasks", 2))
	if nt < 1 {
		nt = 1
	}
	if nt > 8 {
		nt = 8
	}
	tasks := make([][]*taskCall, nt)
	for i := range s.Ops {
		op := &s.Ops[i]
		if op.Op != "call" || len(op.N) < 2 {
			continue
		}
		tk := int(op.N[0])
		if tk < 0 || tk >= nt {
			continue
		}
		var c callable
		if op.N[1] < 0 {
			c = specials[int(-1-op.N[1])%len(specials)]
		} else if len(methods) > 0 {
			c = methods[int(op.N[1])%len(methods)]
		} else {
			c = specials[0]
		}
		tasks[tk] = append(tasks[tk], &taskCall{c: c})
	}
	// Every private instance the run will need is built now, before the
	// package-state baseline is taken: parsers and constructors are not
	// read-only operations and may legitimately fill package-level tables
	// (an intern table, say).
	ncalls := 0
	for _, calls := range tasks {
		ncalls += len(calls)
	}
	stock := make([]reflect.Value, 0, ncalls*9)
	for i := 0; i < ncalls*9; i++ {
		stock = append(stock, private2(vop))
	}
	private = func() reflect.Value {
		if len(stock) == 0 {
			return private2(vop)
		}
		v := stock[len(stock)-1]
		stock = stock[:len(stock)-1]
		return v
	}
	// Oracle 2 baseline for package-level state: taken before ANY read-only
	// call of this run, including the solo executions below — a cache keyed by
	// content would otherwise be warmed by the solo run and stay unchanged (and
	// race-free) during the concurrent phase.
	globals := libraryGlobals()
	gnames := engine.SortedKeys(globals)
	gbefore := make([]string, len(gnames))
	for i, n := range gnames {
		gbefore[i] = snap.Of(globals[n])
	}
	// Oracle 1 baseline: every call executed alone on a fresh, private
	// instance of the same value; the dry run also counts the yields.
	total := int64(0)
	for _, calls := range tasks {
		for _, tc := range calls {
			pv := private()
			if !pv.IsValid() {
				return
			}
			tc.twinSolo, tc.twinConc = private(), private()
			schedCountOnly(true)
			tc.want, tc.panic = safeCall(tc.c, pv, tc.twinSolo)
			tc.yields = schedYields()
			schedCountOnly(false)
			total += tc.yields
			o.Probe("scheduled_call:" + tc.c.name)
			if tc.panic {
				o.Panics++
				if o.PanicSample == "" {
					o.PanicSample = tc.c.name + ": " + tc.want
				}
			}
		}
	}
	// Oracle 4: read-only calls leave no trace. Each call is repeated alone on
	// yet another fresh instance of the same value: it must return the same
	// result and execute the same number of statements. A different path the
	// second time means the first execution remembered something — in the
	// receiver's type, in package-level state, or somewhere the memory snapshot
	// cannot follow (closures, sync.Map, atomics).
	parsedAgain := false
	for _, calls := range tasks {
		for _, tc := range calls {
			if tc.c.name == "@parse-again" {
				parsedAgain = true
			}
		}
	}
	for id, calls := range tasks {
		if parsedAgain {
			break // see below: such a run is judged by the race oracle only
		}
		for ci, tc := range calls {
			pv, tw := private(), private()
			if !pv.IsValid() {
				continue
			}
			schedCountOnly(true)
			again, _ := safeCall(tc.c, pv, tw)
			y := schedYields()
			schedCountOnly(false)
			if again != tc.want {
				// A third execution tells a call that remembered its first execution
				// (second and third agree) from one whose result is not a function of
				// the value at all (it reads a clock the simulator does not own, or
				// entropy): for the latter "the result it would return alone" is not
				// defined, and no result oracle judges it in this run.
				pv3, tw3 := private(), private()
				third, _ := safeCall(tc.c, pv3, tw3)
				if third == again {
					o.Violate("C18/result-differs-when-the-call-is-repeated/"+tc.c.name, "task %d call %d %s on a fresh %s: %s", id, ci, tc.c.name, vop.Struct, diff(tc.want, again))
				} else {
					tc.unstable = true
					o.Probe("call_result_varies_when_repeated_alone:" + tc.c.name)
				}
			} else if y != tc.yields && func() bool {
				// a path that simply is not a function of the value (it ranges over a
				// Go map, say) differs from execution to execution; a path that the
				// first execution changed for all later ones is the same from the
				// second execution on
				pv3, tw3 := private(), private()
				if !pv3.IsValid() {
					return false
				}
				schedCountOnly(true)
				safeCall(tc.c, pv3, tw3)
				y3 := schedYields()
				schedCountOnly(false)
				if y3 != y {
					o.Probe("call_path_varies_when_repeated_alone:" + tc.c.name)
				}
				return y3 == y
			}() {
				o.Violate("C18/read-only-calls-left-a-trace/"+tc.c.name, "task %d call %d %s: executed %d statements on a fresh %s the first time and %d when repeated on another fresh instance of the same value", id, ci, tc.c.name, tc.yields, vop.Struct, y)
			}
		}
	}
	// schedule: permille positions -> absolute yield ordinals
	var pts []point
	for _, sp := range s.Sched {
		if total > 0 {
			pts = append(pts, point{at: 1 + sp.AfterYield%1000*total/1000, task: int32(sp.Task)})
		}
	}
	sort.SliceStable(pts, func(i, j int) bool { return pts[i].at < pts[j].at })
	before := snap.Of(sharedPtr.Interface())

	schedReset(nt, pts)
	var wg sync.WaitGroup
	for id := 0; id < nt; id++ {
		wg.Add(1)
		go func(id int32) {
			defer wg.Done()
			taskWait(id)
			for _, tc := range tasks[id] {
				taskEnter(id)
				setSink(tc)
				tc.got, _ = safeCall(tc.c, sharedPtr, tc.twinConc)
				setSink(nil)
				taskLeave(id)
			}
			taskDone(id)
		}(int32(id))
	}
	schedActivate()
	wg.Wait()
	yields, nsw, overlap, inSerial, swHash := schedStats()

	if nsw > 0 {
		o.NonTrivial = true
		o.Faults["preemption"] += nsw
	}
	o.ProbeN("yields", yields)
	o.ProbeN("preemptions_inside_a_call", inSerial)
	o.ProbeN("preemptions_postponed_to_the_unlock_of_a_lock_holder", schedHeldBack())
	o.ProbeN("switches_with_two_tasks_inside_calls", overlap)
	o.Probe("value:" + vop.Struct)
	if os.Getenv("SIM_RACE") == "1" {
		o.Probe("race_build_runs")
	}
	// Parsing is not one of the read-only operations the property lists: a
	// parser may legitimately update state that values share (an intern table
	// with statistics, under a lock). A run in which a task parsed the bytes
	// again while the others read is therefore judged by the race oracle only.
	for id, calls := range tasks {
		for ci, tc := range calls {
			if tc.got != tc.want && !tc.unstable && !parsedAgain {
				o.Violate("C18/result-differs-from-solo-execution/"+tc.c.name, "task %d call %d %s on a shared %s: %s", id, ci, tc.c.name, vop.Struct, diff(tc.want, tc.got))
			}
			o.FP.Step("call", id, ci, tc.c.name, tc.got)
			o.FPR.Step("call", id, ci, tc.c.name, tc.got)
			o.HasFPR = true
		}
	}
	for id, calls := range tasks {
		for ci, tc := range calls {
			for _, k := range tc.kept {
				if parsedAgain {
					break
				}
				if now := obs.Results(k.vals, obsOpt); now != k.canon {
					o.Violate("C18/returned-value-changed-after-return/"+tc.c.name, "task %d call %d %s: the value it returned reads differently after the other tasks ran: %s", id, ci, tc.c.name, diff(k.canon, now))
				}
			}
		}
	}
	if after := snap.Of(sharedPtr.Interface()); after != before && !parsedAgain {
		o.Violate("C18/read-only-calls-mutated-the-receiver/"+sharedPtr.Type().Elem().Name(), "shared %s changed in memory (to capacity) while only read-only calls ran: %s", vop.Struct, diff(before, after))
	}
	for i, n := range gnames {
		if parsedAgain {
			break
		}
		if a := snap.Of(globals[n]); a != gbefore[i] {
			o.Violate("C18/read-only-calls-mutated-package-state/"+n, "package-level variable %s changed while only read-only calls ran: %s", n, diff(gbefore[i], a))
		}
	}
	o.ProbeN("snapshot_bytes", int64(len(before)))
	if nsw > 0 {
		o.Tag("interleaving (hash of the executed (yield ordinal, from, to, site) switch sequence)", fmt.Sprintf("%016x", swHash))
	}
	o.Tag("shared value type", sharedPtr.Type().Elem().Name())
	for _, calls := range tasks {
		for _, tc := range calls {
			o.Tag("call", tc.c.name)
		}
	}
	o.FP.Step("sched", yields, nsw, swHash)
	_ = inSerial
}

func diff(a, b string) string {
	n := min(len(a), len(b))
	i := 0
	for i < n && a[i] == b[i] {
		i++
	}
	lo := max(0, i-60)
	clip := func(s string) string {
		if len(s) > 160 {
			return s[:160]
		}
		return s
	}
	return fmt.Sprintf("first difference at %d: ...%q vs ...%q", i, clip(a[lo:]), clip(b[lo:]))
}
