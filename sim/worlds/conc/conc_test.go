package conc

import (
	"testing"

	"i2psim.local/sim/engine"
)

func TestSim(t *testing.T) { engine.WorkerMain(t, World{}) }
