package conc

import (
	"fmt"
	"os"
	"regexp"
	"strings"
	"testing"

	"i2psim.local/sim/engine"
)

// In a -race build the driver points GORACE log_path at a file; after every
// run the hook looks at what the detector appended and turns each report into
// a violation whose class names the top library frame of both accesses.

var raceOff int64

func raceLogPath() string {
	p := os.Getenv("SIM_RACE_LOG")
	if p == "" {
		return ""
	}
	return fmt.Sprintf("%s.%d", p, os.Getpid())
}

var frameRe = regexp.MustCompile(`^\s+(github\.com/go-i2p/common/[^\s(]+(?:\([^)]*\))?[^\s(]*)\(`)

func topLibraryFrame(block []string) string {
	for _, l := range block {
		if m := frameRe.FindStringSubmatch(l); m != nil {
			f := strings.TrimPrefix(m[1], "github.com/go-i2p/common/")
			return f
		}
	}
	return "outside-library"
}

func init() {
	engine.RaceHook = func(t *testing.T, s *engine.Script, o *engine.Outcome) {
		p := raceLogPath()
		if p == "" {
			return
		}
		b, err := os.ReadFile(p)
		if err != nil || int64(len(b)) <= raceOff {
			return
		}
		fresh := string(b[raceOff:])
		raceOff = int64(len(b))
		for _, rep := range strings.Split(fresh, "WARNING: DATA RACE")[1:] {
			lines := strings.Split(rep, "\n")
			var first, second []string
			cur := &first
			for _, l := range lines[1:] {
				if strings.HasPrefix(l, "Previous ") {
					cur = &second
					continue
				}
				if strings.HasPrefix(l, "Goroutine ") || strings.HasPrefix(l, "====") {
					break
				}
				*cur = append(*cur, l)
			}
			kind := strings.TrimSpace(lines[1])
			if i := strings.Index(kind, " at "); i > 0 {
				kind = kind[:i]
			}
			a, bb := topLibraryFrame(first), topLibraryFrame(second)
			o.Violate("C18/race/"+a+"|"+bb, "data race (%s) between %s and %s while tasks made read-only calls on a shared value; detector report:%s", kind, a, bb, clipRep(rep))
		}
	}
}

func clipRep(s string) string {
	if len(s) > 1800 {
		return s[:1800]
	}
	return s
}
