package conc

import "runtime"

// scheduler serialises the reader tasks: exactly one task goroutine runs at a
// time, and control changes hands only at yield points, as the script says.
//
// Everything here is accessed only from //go:norace functions. The hand-over
// is a spin on a plain word plus runtime.Gosched, so the race detector sees no
// happens-before edge between tasks: the tasks are strictly serialised in the
// scripted order, yet any conflicting access pair between two of them is
// reported — deterministically, because the order of accesses is the
// script's.
type scheduler struct {
	active   int32
	cur      int32
	n        int32
	done     [8]int32
	inCall   [8]int32 // 1 while the task is inside a library call
	locks    [8]int32 // library locks the task holds (it is not parked meanwhile)
	pending  int32    // 1 + task to switch to once the running task has released its locks
	heldBack int64    // preemptions postponed because the running task held a lock
	yields   int64
	points   []point
	next     int
	nswitch  int64
	swHash   uint64
	overlap  int64 // switches that left >= 2 tasks inside a call at once
	inSerial int64 // preemptions that landed inside a call
	counting int32 // count-only mode (dry run)
}

type point struct {
	at   int64
	task int32
}

var sched scheduler

//go:norace
func schedReset(n int, pts []point) {
	sched = scheduler{n: int32(n), points: pts}
}

//go:norace
func schedCountOnly(on bool) {
	if on {
		sched.counting = 1
		sched.yields = 0
	} else {
		sched.counting = 0
	}
}

//go:norace
func schedYields() int64 { return sched.yields }

//go:norace
func schedHeldBack() int64 { return sched.heldBack }

//go:norace
func schedStats() (yields, nswitch, overlap, inSerial int64, swHash uint64) {
	return sched.yields, sched.nswitch, sched.overlap, sched.inSerial, sched.swHash
}

//go:norace
func schedActivate() { sched.cur = 0; sched.active = 1 }

// yieldHook is installed as zzsimyield.Hook.
//
//go:norace
func yieldHook(site int) {
	s := &sched
	if s.counting != 0 {
		s.yields++
		return
	}
	if s.active == 0 {
		return
	}
	me := s.cur
	s.yields++
	for s.next < len(s.points) && s.points[s.next].at <= s.yields {
		p := s.points[s.next]
		s.next++
		if p.at != s.yields {
			continue
		}
		t := p.task % s.n
		if t == me || s.done[t] != 0 {
			continue
		}
		if s.locks[me] > 0 {
			// never park a lock holder: the switch happens at its last unlock
			s.pending = 1 + t
			s.heldBack++
			continue
		}
		s.nswitch++
		s.swHash = (s.swHash ^ uint64(s.yields)<<20 ^ uint64(me)<<8 ^ uint64(t) ^ uint64(site)<<40) * 0x9E3779B97F4A7C15
		if s.inCall[me] != 0 {
			s.inSerial++
			busy := 0
			for i := int32(0); i < s.n; i++ {
				if s.inCall[i] != 0 {
					busy++
				}
			}
			if s.inCall[t] != 0 && busy >= 2 {
				s.overlap++
			}
		}
		s.cur = t
		break
	}
	for s.cur != me {
		runtime.Gosched()
	}
}

// lockHook is installed as zzsimyield.LockHook.
//
//go:norace
func lockHook(delta int) {
	s := &sched
	if s.counting != 0 || s.active == 0 {
		return
	}
	me := s.cur
	s.locks[me] += int32(delta)
	if s.locks[me] < 0 {
		s.locks[me] = 0
	}
	if s.locks[me] == 0 && s.pending != 0 {
		t := s.pending - 1
		s.pending = 0
		if t != me && s.done[t] == 0 {
			s.nswitch++
			s.swHash = (s.swHash ^ uint64(s.yields)<<20 ^ uint64(me)<<8 ^ uint64(t) ^ 0xFFFF<<40) * 0x9E3779B97F4A7C15
			s.cur = t
			for s.cur != me {
				runtime.Gosched()
			}
		}
	}
}

//go:norace
func taskWait(id int32) {
	for sched.active == 0 || sched.cur != id {
		runtime.Gosched()
	}
}

//go:norace
func taskEnter(id int32) { sched.inCall[id] = 1 }

//go:norace
func taskLeave(id int32) { sched.inCall[id] = 0 }

//go:norace
func taskDone(id int32) {
	s := &sched
	s.done[id] = 1
	for k := int32(1); k <= s.n; k++ {
		t := (id + k) % s.n
		if s.done[t] == 0 {
			s.cur = t
			return
		}
	}
	s.active = 0
}

// setSink switches the result sink of the running task. It is norace because
// the tasks take turns writing this one harness variable under the scheduler's
// hand-over, which the race detector cannot see.
//
//go:norace
func setSink(tc *taskCall) { keepSink = tc }
