package els

import (
	"testing"
	"time"

	"i2psim.local/sim/engine"
)

func TestSim(t *testing.T) { engine.WorkerMain(t, World{}) }

func TestDayString(t *testing.T) {
	for _, u := range []int64{0, 86399, 86400, 951782400, 951868800, 1709164800, 1709251200, 4107542400, 9223372036 - 86400, 1790000000} {
		if got, want := dayString(u), time.Unix(u, 0).UTC().Format("2006-01-02"); got != want {
			t.Fatalf("dayString(%d)=%s want %s", u, got, want)
		}
	}
}
