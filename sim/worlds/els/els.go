// Package els is the C16 world: a publisher encrypts LeaseSet2s to client
// X25519 keys, the ciphertext is stored at a floodfill whose store suffers bit
// rot, clients fetch and open it (sometimes with the wrong key); publisher and
// clients derive blinded destinations from their own clocks and time zones.
package els

import (
	"bytes"
	"crypto/rand"
	"encoding/hex"
	"fmt"
	"math/big"
	"strings"
	"testing"
	"testing/synctest"
	"time"

	"github.com/go-i2p/common/destination"
	"github.com/go-i2p/common/encrypted_leaseset"
	"github.com/go-i2p/common/lease_set2"
	"github.com/go-i2p/crypto/curve25519"
	"github.com/go-i2p/crypto/kdf"
	"go.step.sm/crypto/x25519"

	"i2psim.local/sim/adapters"
	"i2psim.local/sim/engine"
	"i2psim.local/sim/refmodel"
	"i2psim.local/sim/seams"
	"i2psim.local/sim/worlds/auth"
)

type World struct{}

func (World) Name() string { return "els" }

const bubbleBase = int64(946684800)

func ls2Shape(r *engine.RNG) *engine.Shape {
	if r.Chance(1, 2) {
		// the catalogue's generator: every identity form, unsorted options,
		// reserved flag bits, unusual key lengths, every transient key type
		return adapters.ByName("ReadLeaseSet2").Gen(r)
	}
	sh := &engine.Shape{Kind: "ls2", Seed: r.Uint64() | 1, IdentSeed: 1 + uint64(r.Intn(6)), Cert: "key"}
	sh.Sig, sh.Crypto = r.PickInt(7, 7, 11), r.PickInt(4, 0)
	sh.U = []uint64{r.Uint64() & 0xFFFFFFFF, r.Uint64() & 0xFFFF, uint64(r.Intn(4)) << 1}
	sh.N = r.PickInt(1, 1, 2, 3, 8, 16)
	sh.Size = r.PickInt(1, 1, 2, 4)
	for i := 0; i < sh.N; i++ {
		sh.U = append(sh.U, r.Uint64()&0xFFFFFFFF)
	}
	if r.Chance(1, 3) {
		sh.Offline = &engine.OfflineShape{Transient: r.PickInt(7, 11), Expires: 1 + r.Uint64()&0xFFFFFFFE, Seed: 100 + uint64(r.Intn(4))}
	}
	if r.Chance(1, 3) {
		sh.Opts = [][2]string{{"svc", "x"}, {"tcp", "1234"}}[:r.Range(1, 2)]
	}
	if r.Chance(1, 25) {
		// the largest LeaseSet2 an EncryptedLeaseSet can carry: its ciphertext
		// (32-byte ephemeral key, 12-byte nonce, 16-byte tag around it) must fit
		// the 16-bit inner length, so 65535-60 bytes of plaintext — exactly that,
		// one less, one more
		padTo(sh, 65535-60+r.PickInt(0, 0, 0, -1, 1, -2, -60))
	}
	return sh
}

// padTo fills the options of a LeaseSet2 shape with pairs "pNNN" = v… so that
// the encoded structure is exactly total bytes long (a pair costs 8 bytes plus
// its value; values are at most 255 bytes).
func padTo(sh *engine.Shape, total int) {
	sh.Opts, sh.Unsorted = nil, false
	f, err := refmodel.Build(sh)
	if err != nil {
		return
	}
	d := total - len(f.Bytes)
	if d < 8 {
		return
	}
	add := func(v int) {
		sh.Opts = append(sh.Opts, [2]string{fmt.Sprintf("p%03d", len(sh.Opts)), strings.Repeat("v", v)})
		d -= 8 + v
	}
	for d > 263+8 {
		add(255)
	}
	if d > 263 {
		add(100)
	}
	add(d - 8)
}

func (World) Generate(r *engine.RNG, tier string) *engine.Script {
	s := &engine.Script{Property: "C16", Config: map[string]int64{}}
	n := r.Range(2, 8)
	if tier == "thorough" {
		n = r.Range(2, 16)
	}
	nct := 0
	for i := 0; i < n; i++ {
		switch k := r.Intn(10); {
		case k < 3 || nct == 0 && k < 7:
			tag := int64(nct)
			nct++
			// N[4] = 1: the LeaseSet2 comes out of the library's signing constructor
			// (as a publisher's would) instead of being parsed from reference bytes
			s.Ops = append(s.Ops, engine.Op{Op: "encrypt", Shape: ls2Shape(r.Fork()), N: []int64{tag, int64(r.Intn(3)), int64(r.Intn(4)), int64(r.Uint64() >> 1), int64(r.Intn(2))}})
			if r.Chance(1, 3) {
				s.Faults = append(s.Faults, engine.Fault{At: tag, Kind: r.PickStr("entropy_short", "entropy_restart", "entropy_zero", "entropy_ones", "entropy_error"), N: []int64{int64(r.Intn(64))}})
			}
			// the usual follow-up: somebody fetches it
			s.Ops = append(s.Ops, engine.Op{Op: "fetch", N: []int64{tag, int64(r.Intn(3)), int64(r.Intn(3))}})
		case k < 5:
			s.Ops = append(s.Ops, engine.Op{Op: "corrupt", N: []int64{int64(r.Intn(max(nct, 1))), int64(r.PickInt(0, 0, 1, 2, 2, 2, 3, 3, 4)), int64(r.Intn(1 << 16)), int64(r.PickInt(1+r.Intn(255), 1<<uint(r.Intn(8))))}})
			s.Ops = append(s.Ops, engine.Op{Op: "fetch", N: []int64{int64(r.Intn(max(nct, 1))), int64(r.Intn(3)), int64(r.Intn(3))}})
		case k < 6:
			s.Ops = append(s.Ops, engine.Op{Op: "resize", N: []int64{int64(r.Intn(max(nct, 1))), int64(r.PickInt(-1, -2, -16, -17, 1, 2, 16, -60))}})
			s.Ops = append(s.Ops, engine.Op{Op: "fetch", N: []int64{int64(r.Intn(max(nct, 1))), int64(r.Intn(3)), int64(r.Intn(3))}})
		case k < 7:
			s.Ops = append(s.Ops, engine.Op{Op: "fetch", N: []int64{int64(r.Intn(max(nct, 1))), int64(r.Intn(3)), int64(r.Intn(3))}})
		default:
			// two nodes blind the same destination from their own clocks
			day := int64(10957 + r.Intn(95000)) // days since epoch: 2000..2260
			var ua, ub int64
			switch r.Intn(6) {
			case 0: // either side of UTC midnight
				ua, ub = day*86400-1-int64(r.Intn(3)), day*86400+int64(r.Intn(3))
			case 1: // same day, far apart
				ua, ub = day*86400, day*86400+86399
			case 2: // seconds of skew inside a day
				ua = day*86400 + int64(r.Intn(86400))
				ub = ua + int64(r.Range(-5, 5))
			case 3: // days of skew
				ua = day*86400 + int64(r.Intn(86400))
				ub = ua + int64(r.Range(-3, 3))*86400
			default:
				ua = day*86400 + int64(r.Intn(86400))
				ub = day*86400 + int64(r.Intn(2*86400)) - 43200
			}
			zones := []int{0, 0, 3600, -3600, 19800, -43200, 50400, 45900, -34200}
			s.Ops = append(s.Ops, engine.Op{Op: "blind", N: []int64{1 + int64(r.Intn(6)), int64(r.PickInt(7, 7, 11)), int64(r.Uint64() >> 1), int64(r.PickInt(32, 32, 33, 64, 100)),
				int64(zones[r.Intn(len(zones))]), ua, int64(r.PickInt(0, 0, 999999999)), int64(zones[r.Intn(len(zones))]), ub, int64(r.PickInt(0, 0, 1)),
				int64(r.PickInt(4, 4, 0)), int64(r.PickInt(0, 0, 0, 3, 9)), int64(r.PickInt(0, 0, 1, 2)), int64(zones[r.Intn(len(zones))])}})
		}
	}
	if tier == "thorough" && nct > 0 && r.Chance(1, 25) {
		s.Ops = append(s.Ops, engine.Op{Op: "sweep", N: []int64{int64(r.Intn(nct)), int64(r.Intn(255))}})
	}
	return s
}

type stored struct {
	orig    []byte
	ct      []byte
	plain   []byte
	client  int
	damaged bool
	damage  string
	sigType int
	cookie  []byte // the cookie the publisher encrypted with; the client uses the same
	// the record as the floodfill hands it out: one long-lived EncryptedLeaseSet
	// object per stored ciphertext state, fetched and opened again and again (by
	// right and wrong keys) — not a fresh parse for every attempt
	rec   *encrypted_leaseset.EncryptedLeaseSet
	recOf []byte
}

// keyring holds the clients' key pairs for the length of one run: a client
// keeps using the same key objects (the same memory) for every operation, as a
// real one does, so whatever a call does to the key it was handed is met by the
// next call.
var keyring = map[int]*keyPair{}

type keyPair struct {
	pub  x25519.PublicKey
	priv x25519.PrivateKey
}

// heldSecret: blinding secrets are long-lived too.
var secrets = map[[2]uint64][]byte{}

func heldSecret(seed uint64, n int) []byte {
	k := [2]uint64{seed, uint64(n)}
	if b, ok := secrets[k]; ok {
		return b
	}
	b := refmodel.Expand(seed, "blind-secret", n)
	secrets[k] = b
	return b
}

func clientKeys(i int) (x25519.PublicKey, x25519.PrivateKey) {
	if kp := keyring[i]; kp != nil {
		return kp.pub, kp.priv
	}
	priv := x25519.PrivateKey(refmodel.Expand(uint64(9000+i), "x25519-client", 32))
	pub, err := priv.PublicKey()
	if err != nil {
		panic(err)
	}
	keyring[i] = &keyPair{pub, priv}
	return pub, priv
}

func pubForm(pub x25519.PublicKey, form int) any {
	switch form % 4 {
	case 0:
		return &pub
	case 1:
		return pub
	case 2:
		return curve25519.Curve25519PublicKey(pub)
	default:
		return []byte(pub)
	}
}

// privForm hands the client's long-lived key to the library in one of the
// accepted forms, without copying it first.
func privForm(priv x25519.PrivateKey, form int) any {
	switch form % 3 {
	case 0:
		return &priv
	case 1:
		return priv
	default:
		return []byte(priv)
	}
}

// wrap puts a ciphertext into an EncryptedLeaseSet as the floodfill would
// hand it out. ok=false if the library will not even parse such an object
// (inner length outside what the structure allows).
func wrap(ct []byte) (*encrypted_leaseset.EncryptedLeaseSet, bool) {
	if len(ct) < 61 || len(ct) > 65535 {
		return nil, false
	}
	f, err := refmodel.Build(&engine.Shape{Kind: "els", Seed: 7, IdentSeed: 3, Sig: 7, Hex: hex.EncodeToString(ct), U: []uint64{1700000000, 600, 0}})
	if err != nil {
		return nil, false
	}
	e, _, err := encrypted_leaseset.ReadEncryptedLeaseSet(f.Bytes)
	if err != nil {
		return nil, false
	}
	return &e, true
}

func (World) Execute(t *testing.T, s *engine.Script) *engine.Outcome {
	o := engine.NewOutcome()
	clear(keyring)
	clear(secrets)
	faults := map[int64]*engine.Fault{}
	for i := range s.Faults {
		faults[s.Faults[i].At] = &s.Faults[i]
	}
	store := map[int64]*stored{}
	for i := range s.Ops {
		op := &s.Ops[i]
		switch op.Op {
		case "encrypt":
			if len(op.N) < 4 || op.Shape == nil {
				continue
			}
			encrypt(o, op, faults[op.N[0]], store)
		case "corrupt":
			if len(op.N) < 4 {
				continue
			}
			st := store[op.N[0]]
			if st == nil || len(st.ct) == 0 {
				continue
			}
			region := []string{"ephemeral_key", "nonce", "ciphertext", "tag", "ephemeral_key_top_bit"}[int(op.N[1])%5]
			lo, hi := 0, 32
			switch region {
			case "ephemeral_key_top_bit":
				// X25519 ignores the most significant bit of the peer's public
				// key: a flip there is a modified ciphertext byte all the same
				lo, hi = 31, 32
			case "nonce":
				lo, hi = 32, 44
			case "ciphertext":
				lo, hi = 44, len(st.ct)-16
			case "tag":
				lo, hi = len(st.ct)-16, len(st.ct)
			}
			if hi > len(st.ct) {
				hi = len(st.ct)
			}
			if hi <= lo {
				continue
			}
			off := lo + int(op.N[2])%(hi-lo)
			mask := byte(op.N[3])
			if mask == 0 {
				mask = 1
			}
			if region == "ephemeral_key_top_bit" {
				mask = 0x80
			}
			st.ct[off] ^= mask
			// two flips of the same bit restore the original: damaged means
			// "differs from what the publisher stored"
			st.damaged = !bytes.Equal(st.ct, st.orig)
			st.damage = "bit-rot:" + region
			o.Fault("stored_byte_corruption:" + region)
			o.FP.Step("corrupt", i, off, mask)
		case "resize":
			if len(op.N) < 2 {
				continue
			}
			st := store[op.N[0]]
			if st == nil {
				continue
			}
			d := int(op.N[1])
			if d < 0 {
				if -d >= len(st.ct) {
					continue
				}
				st.ct = st.ct[:len(st.ct)+d]
				st.damage = "truncated"
				o.Fault("ciphertext_truncated")
			} else {
				st.ct = append(st.ct, refmodel.Expand(uint64(i), "ext", d)...)
				st.damage = "extended"
				o.Fault("ciphertext_extended")
			}
			st.damaged = !bytes.Equal(st.ct, st.orig)
			o.FP.Step("resize", i, d)
		case "fetch":
			if len(op.N) < 3 {
				continue
			}
			st := store[op.N[0]]
			if st == nil {
				continue
			}
			fetch(o, i, st, int(op.N[1])%3, int(op.N[2]))
		case "sweep":
			if len(op.N) < 2 {
				continue
			}
			st := store[op.N[0]]
			if st == nil || st.damaged {
				continue
			}
			sweep(o, i, st, byte(op.N[1]))
		case "blind":
			if len(op.N) < 10 {
				continue
			}
			blind(t, o, i, op)
		}
	}
	return o
}

func encrypt(o *engine.Outcome, op *engine.Op, f *engine.Fault, store map[int64]*stored) {
	rf, err := refmodel.Build(op.Shape)
	if err != nil {
		return
	}
	var ls2 lease_set2.LeaseSet2
	var rem []byte
	constructed := false
	if len(op.N) > 4 && op.N[4] == 1 {
		var v any
		var ok bool
		if !o.Guard("NewLeaseSet2", func() { v, ok = auth.Construct(op.Shape) }) && ok {
			if p, isLS2 := v.(*lease_set2.LeaseSet2); isLS2 && p != nil {
				ls2, constructed = *p, true
				o.Probe("plaintext_from_the_signing_constructor")
			}
		}
	}
	if !constructed {
		if o.Guard("ReadLeaseSet2", func() { ls2, rem, err = lease_set2.ReadLeaseSet2(append([]byte(nil), rf.Bytes...)) }) {
			return
		}
		if err != nil || len(rem) != 0 {
			o.Probe("reference_ls2_rejected")
			return
		}
	}
	client := int(op.N[1]) % 3
	pub, _ := clientKeys(client)
	var cookie [32]byte
	copy(cookie[:], refmodel.Expand(uint64(op.N[3]), "cookie", 32))
	var fr *seams.FaultyReader
	saved := rand.Reader
	if f != nil && len(f.N) > 0 {
		fr = &seams.FaultyReader{Under: saved, Kind: f.Kind, Param: int(f.N[0])}
		rand.Reader = fr
	}
	var ct []byte
	var eerr error
	panicked := o.Guard("EncryptInnerLeaseSet2", func() { ct, eerr = encrypted_leaseset.EncryptInnerLeaseSet2(&ls2, cookie, pubForm(pub, int(op.N[2]))) })
	rand.Reader = saved
	if fr != nil && fr.Fired {
		o.Fault(fr.Kind)
	}
	if panicked {
		return
	}
	o.Probe("encryptions")
	if eerr != nil {
		if fr != nil && fr.Fired {
			o.Probe("encrypt_error_under_entropy_fault")
			o.FP.Step("encrypt-error", op.N[0])
			return
		}
		if pb, perr := ls2.Bytes(); perr != nil || len(pb)+60 > 65535 {
			// a LeaseSet2 whose ciphertext would not fit into an EncryptedLeaseSet's
			// 16-bit inner length: refusing it is not a failure of the round trip
			o.Probe("encrypt_refuses_a_leaseset2_too_large_for_an_encrypted_leaseset")
			return
		}
		o.Violate("C16/encrypt-fails/"+fmt.Sprintf("pubform%d", op.N[2]%4), "EncryptInnerLeaseSet2 failed without any fault: %v", short(eerr))
		return
	}
	if fr != nil && fr.Kind == "entropy_error" && fr.Fired {
		// the property does not say where the library may take its entropy from
		// when one source fails; what it produced is judged like any ciphertext
		o.Probe("encrypt_succeeds_although_one_entropy_read_failed")
	}
	plain, _ := ls2.Bytes()
	if n := len(plain) + 60; n >= 65535-2 && n <= 65535 {
		o.Probe(fmt.Sprintf("plaintext_within_2_bytes_of_the_largest_an_encrypted_leaseset_can_carry:%d", len(plain)))
	}
	if !constructed && !bytes.Equal(plain, rf.Bytes) {
		o.Probe("ls2_bytes_differ_from_reference") // C01 matter
	}
	// layout: eph(32) | nonce(12) | ct | tag(16)
	if len(ct) != 32+12+len(plain)+16 {
		// the property does not fix the layout (a version byte or padding would
		// be compatible with it); the region names of the corruption faults are
		// then only approximate, the obligations stay the same
		o.Probe("ciphertext_layout_differs_from_eph_nonce_ct_tag")
	}
	store[op.N[0]] = &stored{orig: append([]byte(nil), ct...), ct: ct, plain: plain, client: client, sigType: op.Shape.Sig, cookie: append([]byte(nil), cookie[:]...)}
	o.FP.Step("encrypt", op.N[0], ct)
}

func decrypt(o *engine.Outcome, ct []byte, priv any, cookie []byte) (got []byte, derr error, gotVal bool, unparseable bool, panicked bool) {
	e, ok := wrap(ct)
	if !ok {
		return nil, nil, false, true, false
	}
	return open(o, e, priv, cookie)
}

// record returns the long-lived EncryptedLeaseSet object of a stored
// ciphertext; it is parsed anew only when the stored bytes have changed.
func (st *stored) record() (*encrypted_leaseset.EncryptedLeaseSet, bool) {
	if st.rec == nil || !bytes.Equal(st.recOf, st.ct) {
		e, ok := wrap(st.ct)
		if !ok {
			return nil, false
		}
		st.rec, st.recOf = e, append([]byte(nil), st.ct...)
	}
	return st.rec, true
}

func open(o *engine.Outcome, e *encrypted_leaseset.EncryptedLeaseSet, priv any, cookie []byte) (got []byte, derr error, gotVal bool, unparseable bool, panicked bool) {
	var v *lease_set2.LeaseSet2
	panicked = o.Guard("DecryptInnerData", func() { v, derr = e.DecryptInnerData(cookie, priv) })
	if panicked {
		return
	}
	if v != nil {
		gotVal = true
		got, _ = v.Bytes()
	}
	return
}

func fetch(o *engine.Outcome, idx int, st *stored, client int, form int) {
	_, priv := clientKeys(client)
	var got []byte
	var derr error
	var gotVal, unparseable, panicked bool
	if rec, ok := st.record(); ok {
		got, derr, gotVal, unparseable, panicked = open(o, rec, privForm(priv, form), st.cookie)
	} else {
		unparseable = true
	}
	if panicked {
		return
	}
	o.Probe("fetches")
	if unparseable {
		o.Probe("stored_object_not_wrappable")
		return
	}
	wrongKey := client != st.client
	if wrongKey {
		o.Fault("mis_delivery_wrong_private_key")
	}
	switch {
	case !st.damaged && !wrongKey:
		if derr != nil || !gotVal {
			o.Violate("C16/decrypt-of-untouched-ciphertext-fails/"+fmt.Sprintf("privform%d", form%3), "op %d: matching key, untouched ciphertext (%d bytes): error %v", idx, len(st.ct), shortE(derr))
		} else if !bytes.Equal(got, st.plain) {
			o.Violate("C16/decrypt-returns-different-bytes", "op %d: decrypted LeaseSet2 serialises to %d bytes that differ from the %d-byte plaintext", idx, len(got), len(st.plain))
		} else {
			o.Probe("round_trips_ok")
		}
	default:
		why := st.damage
		if wrongKey && !st.damaged {
			why = "wrong-private-key"
		} else if wrongKey {
			why += "+wrong-private-key"
		}
		if gotVal || derr == nil {
			o.Violate("C16/value-from-damaged-or-misdelivered-ciphertext/"+why, "op %d: DecryptInnerData returned value=%v err=%v for a ciphertext that is %s", idx, gotVal, shortE(derr), why)
		} else {
			o.Probe("rejections_ok")
		}
	}
	o.Tag("(ciphertext state, key, outcome)", fmt.Sprintf("%s/%v/%v", st.damage, wrongKey, derr == nil))
	o.FP.Step("fetch", idx, client, derr == nil, gotVal)
}

func sweep(o *engine.Outcome, idx int, st *stored, m byte) {
	_, priv := clientKeys(st.client)
	n := 0
	for pos := range st.ct {
		mask := byte(1) << (uint(pos+int(m)) % 8)
		ct := append([]byte(nil), st.ct...)
		ct[pos] ^= mask
		_, derr, gotVal, unparseable, panicked := decrypt(o, ct, priv, st.cookie)
		if panicked || unparseable {
			continue
		}
		n++
		if gotVal || derr == nil {
			region := "ciphertext"
			switch {
			case pos < 32:
				region = "ephemeral_key"
			case pos < 44:
				region = "nonce"
			case pos >= len(st.ct)-16:
				region = "tag"
			}
			o.Violate("C16/value-from-damaged-or-misdelivered-ciphertext/bit-rot:"+region, "op %d: sweep position %d mask %02x (%s) was not rejected", idx, pos, mask, region)
			break
		}
	}
	o.Fault("full_position_sweep")
	o.ProbeN("sweep_positions", int64(n))
	o.FP.Step("sweep", idx, n)
}

func short(err error) string {
	s := err.Error()
	for i, c := range s {
		if c == '\n' {
			return s[:i]
		}
	}
	if len(s) > 120 {
		s = s[:120]
	}
	return s
}

func shortE(err error) string {
	if err == nil {
		return "<nil>"
	}
	return short(err)
}

func dayString(unix int64) string {
	// civil date of a Unix day without the time package's zone handling
	z := unix/86400 + 719468
	if unix < 0 && unix%86400 != 0 {
		z--
	}
	era := z / 146097
	doe := z - era*146097
	yoe := (doe - doe/1460 + doe/36524 - doe/146096) / 365
	y := yoe + era*400
	doy := doe - (365*yoe + yoe/4 - yoe/100)
	mp := (5*doy + 2) / 153
	d := doy - (153*mp+2)/5 + 1
	m := mp + 3
	if m > 12 {
		m -= 12
	}
	if m <= 2 {
		y++
	}
	return fmt.Sprintf("%04d-%02d-%02d", y, m, d)
}

var groupOrder, _ = new(big.Int).SetString("7237005577332262213973186563042994240857116359379907606001950938285454250989", 10)

func relatedFactors(alpha [32]byte) map[string][32]byte {
	le := func(x *big.Int) ([32]byte, bool) {
		var out [32]byte
		if x.Sign() < 0 || x.BitLen() > 256 {
			return out, false
		}
		b := x.Bytes()
		for i := range b {
			out[len(b)-1-i] = b[i]
		}
		return out, true
	}
	be := make([]byte, 32)
	for i := range alpha {
		be[31-i] = alpha[i]
	}
	a := new(big.Int).SetBytes(be)
	out := map[string][32]byte{}
	for _, k := range []int64{1, 2, 8, 15} {
		if v, ok := le(new(big.Int).Add(a, new(big.Int).Mul(big.NewInt(k), groupOrder))); ok && v != alpha {
			out[fmt.Sprintf("derived-factor-plus-%d-group-orders", k)] = v
		}
	}
	if v, ok := le(new(big.Int).Sub(groupOrder, new(big.Int).Mod(a, groupOrder))); ok && v != alpha {
		out["negated-derived-factor"] = v
	}
	var zero, ones [32]byte
	for i := range ones {
		ones[i] = 0xFF
	}
	if zero != alpha {
		out["all-zero-factor"] = zero
	}
	out["all-ones-factor"] = ones
	top := alpha
	top[31] ^= 0x80
	out["derived-factor-with-top-bit-flipped"] = top
	return out
}

func blind(t *testing.T, o *engine.Outcome, idx int, op *engine.Op) {
	identSeed, sig := uint64(op.N[0]), int(op.N[1])
	secret := heldSecret(uint64(op.N[2]), int(op.N[3]))
	crypto, excess, dateMode, argZone := refmodel.EncX25519, 0, 0, 0
	if len(op.N) >= 14 {
		crypto, excess, dateMode, argZone = int(op.N[10]), int(op.N[11]), int(op.N[12]), int(op.N[13])
	}
	// the destination varies too: ElGamal or X25519 encryption key (different
	// padding lengths), key certificate with excess payload
	id := refmodel.NewIdentity(identSeed, sig, crypto, "key", excess)
	dest, _, err := destination.ReadDestination(append([]byte(nil), id.Bytes...))
	if err != nil {
		o.Probe("blind_destination_rejected")
		return
	}
	type node struct {
		zone     int
		unix, ns int64
		out      []byte
		out2     []byte
		err      error
		bd       destination.Destination
	}
	nodes := []*node{{zone: int(op.N[4]), unix: op.N[5], ns: op.N[6]}, {zone: int(op.N[7]), unix: op.N[8], ns: op.N[9]}}
	for _, n := range nodes {
		if n.unix <= bubbleBase || n.unix > 9223372036-86400 {
			return
		}
	}
	for ni, n := range nodes {
		func() {
			saved := time.Local
			defer func() { time.Local = saved }()
			synctest.Test(t, func(t *testing.T) {
				time.Local = time.FixedZone("node", n.zone)
				time.Sleep(time.Until(time.Unix(n.unix, n.ns)))
				o.Guard("CreateBlindedDestination", func() {
					now := time.Now() // the node's own reading, in its own zone
					switch dateMode {
					case 1: // the caller converts to some other zone before passing it on
						now = now.In(time.FixedZone("arg", argZone))
					case 2: // or strips the zone and passes UTC
						now = now.UTC()
					}
					n.bd, n.err = encrypted_leaseset.CreateBlindedDestination(dest, secret, now)
					if n.err == nil {
						n.out, _ = n.bd.Bytes()
						// deterministic: a second derivation at the same instant
						bd2, err2 := encrypted_leaseset.CreateBlindedDestination(dest, secret, now)
						if err2 == nil {
							n.out2, _ = bd2.Bytes()
						}
					}
				})
			})
		}()
		o.SimSeconds += float64(n.unix - bubbleBase)
		o.Fault(fmt.Sprintf("node_boot_zone:%+d", n.zone/3600))
		if n.err != nil || n.out == nil {
			o.Violate(fmt.Sprintf("C16/blinding-fails/sig%d", sig), "op %d node %d: CreateBlindedDestination failed for a type-%d destination and a %d-byte secret: %v", idx, ni, sig, len(secret), shortE(n.err))
			return
		}
		if !bytes.Equal(n.out, n.out2) {
			o.Violate("C16/blinding-not-deterministic", "op %d node %d: two derivations at the same instant differ", idx, ni)
		}
		// keeps encryption key, padding and certificate; different signing key
		orig := id.Bytes
		if len(n.out) != len(orig) || len(orig) < 384 || !bytes.Equal(n.out[:352], orig[:352]) || !bytes.Equal(n.out[384:], orig[384:]) {
			o.Violate("C16/blinding-changes-more-than-the-signing-key", "op %d node %d: encryption key, padding or certificate differ from the original destination", idx, ni)
		}
		if len(n.out) >= 384 && bytes.Equal(n.out[352:384], orig[352:384]) {
			o.Violate("C16/blinding-keeps-the-signing-key", "op %d node %d: blinded destination carries the original signing key", idx, ni)
		}
		// the library's own check with the derived factor, and with others
		day := dayString(n.unix)
		alpha, err := kdf.DeriveBlindingFactor(secret, day)
		if err != nil {
			o.Notes["infra"] = "DeriveBlindingFactor: " + err.Error()
			return
		}
		var okDerived bool
		o.Guard("VerifyBlindedSignature", func() { okDerived = encrypted_leaseset.VerifyBlindedSignature(n.bd, dest, alpha) })
		if !okDerived {
			o.Violate(fmt.Sprintf("C16/blinded-destination-fails-own-check/sig%d", sig), "op %d node %d: VerifyBlindedSignature(blinded, original, DeriveBlindingFactor(secret, %s)) = false for a type-%d destination", idx, ni, day, sig)
		}
		// the check is about the triple (blinded, original, factor): a
		// destination whose signing key differs from the blinded one in a
		// single bit must fail it even with the derived factor
		if len(n.out) >= 384 {
			tb := append([]byte(nil), n.out...)
			pos := 352 + int(op.N[2]>>3)%32
			tb[pos] ^= 1 << (uint(op.N[2]) % 8)
			if td, _, err := destination.ReadDestination(tb); err == nil {
				var okT bool
				o.Guard("VerifyBlindedSignature", func() { okT = encrypted_leaseset.VerifyBlindedSignature(td, dest, alpha) })
				if okT {
					o.Violate("C16/blinding-check-passes-for-a-different-blinded-key", "op %d node %d: VerifyBlindedSignature accepted a destination whose signing key differs from the blinded key in bit %d of byte %d", idx, ni, uint(op.N[2])%8, pos-352)
				}
				o.Fault("blinded_key_bit_flip")
			}
		}
		// something that is not a blinded destination at all (a DSA destination with
		// a NULL certificate) is not the blinding of anything
		if ud, _, err := destination.ReadDestination(append([]byte(nil), refmodel.NewIdentity(identSeed+17, refmodel.SigDSA, refmodel.EncElGamal, "null", 0).Bytes...)); err == nil {
			var ok1, ok2 bool
			o.Guard("VerifyBlindedSignature", func() {
				ok1 = encrypted_leaseset.VerifyBlindedSignature(ud, dest, alpha)
				ok2 = encrypted_leaseset.VerifyBlindedSignature(n.bd, ud, alpha)
			})
			if ok1 || ok2 {
				o.Violate("C16/blinding-check-passes-for-an-unrelated-destination", "op %d node %d: VerifyBlindedSignature accepted a DSA destination as blinded (%v) or as original (%v)", idx, ni, ok1, ok2)
			}
			o.Fault("unrelated_destination_offered_as_blinded")
		}
		others := map[string][32]byte{}
		if a2, err := kdf.DeriveBlindingFactor(secret, dayString(n.unix+86400)); err == nil {
			others["next-day-factor"] = a2
		}
		if a3, err := kdf.DeriveBlindingFactor(append([]byte{1}, secret...), day); err == nil {
			others["other-secret-factor"] = a3
		}
		flipped := alpha
		flipped[0] ^= 1
		others["derived-factor-with-one-bit-flipped"] = flipped
		// other 32-byte strings that stand in a simple arithmetic relation to the
		// derived factor: the same scalar plus multiples of the group order (a
		// non-canonical encoding — still another factor), its negation, zero, ones
		for name, v := range relatedFactors(alpha) {
			others[name] = v
		}
		for _, name := range engine.SortedKeys(others) {
			a := others[name]
			var ok bool
			o.Guard("VerifyBlindedSignature", func() { ok = encrypted_leaseset.VerifyBlindedSignature(n.bd, dest, a) })
			if ok {
				o.Violate("C16/blinding-check-passes-with-wrong-factor/"+name, "op %d node %d: VerifyBlindedSignature accepted the %s", idx, ni, name)
			}
		}
	}
	sameDay := floorDiv(nodes[0].unix, 86400) == floorDiv(nodes[1].unix, 86400)
	same := bytes.Equal(nodes[0].out, nodes[1].out)
	skew := nodes[1].unix - nodes[0].unix
	if skew < 0 {
		skew = -skew
	}
	switch {
	case skew < 60:
		o.Probe("skew_under_a_minute")
	case skew < 86400:
		o.Probe("skew_under_a_day")
	default:
		o.Probe("skew_days")
	}
	if !sameDay && skew < 3600 {
		o.Probe("midnight_straddling_pairs")
	}
	if sameDay && !same {
		o.Violate("C16/same-utc-day-different-blinding", "op %d: nodes at %d (zone %+ds) and %d (zone %+ds) are on the same UTC day %s but derive different blinded destinations", idx, nodes[0].unix, nodes[0].zone, nodes[1].unix, nodes[1].zone, dayString(nodes[0].unix))
	}
	if !sameDay && same {
		o.Violate("C16/different-utc-days-same-blinding", "op %d: nodes at %d and %d are on different UTC days (%s, %s) but derive the same blinded destination", idx, nodes[0].unix, nodes[1].unix, dayString(nodes[0].unix), dayString(nodes[1].unix))
	}
	o.FP.Step("blind", idx, nodes[0].out, nodes[1].out)
}

func floorDiv(a, b int64) int64 {
	q := a / b
	if (a%b != 0) && ((a < 0) != (b < 0)) {
		q--
	}
	return q
}
