// Package buf is the C08 world: a transport actor owns a small pool of receive
// buffers; frames are written into them and parsed by a consumer that keeps the
// values; later the transport scribbles over parts of the buffers, recycles
// them for the next packet, and the consumer scribbles over byte slices that
// accessors documented to return copies handed out. Every live value must keep
// reporting and serialising what it did right after its parse.
package buf

import (
	"bytes"
	"fmt"
	"testing"
	"testing/synctest"

	"github.com/go-i2p/common/encrypted_leaseset"
	"github.com/go-i2p/common/lease_set"
	"github.com/go-i2p/common/lease_set2"
	"github.com/go-i2p/common/meta_leaseset"
	"github.com/go-i2p/common/offline_signature"
	"github.com/go-i2p/common/signature"

	"i2psim.local/sim/adapters"
	"i2psim.local/sim/consume"
	"i2psim.local/sim/engine"
	"i2psim.local/sim/obs"
	"i2psim.local/sim/refmodel"
)

type World struct{}

func (World) Name() string { return "buf" }

// bufSize is the default size of a receive buffer; a run may use larger ones
// (config knob "bufsize") so that frames of tens of kilobytes fit too.
const defaultBufSize = 4096

// The property exempts the options of a LeaseSet2 / MetaLeaseSet and the
// entry properties of a MetaLeaseSet ("the identity, key, lease and signature
// parts"). Their observation therefore leaves out the options accessors and
// everything that serialises the options.
func set(names ...string) map[string]bool {
	m := map[string]bool{}
	for _, n := range names {
		m[n] = true
	}
	return m
}

// The restricted observation is an allow-list: exactly the accessors of the
// identity, key, lease / entry, signature and header parts. Anything else the
// type offers now or later (serialisers, Verify, Validate, new accessors that
// may include the options) belongs to the full observation only.
var (
	plainOpt = obs.Options{}
	ls2Opt   = obs.Options{AllowOnly: map[string]map[string]bool{"LeaseSet2": set("Destination", "Published", "PublishedTime", "Expires", "ExpirationTime", "Flags",
		"HasOfflineKeys", "IsUnpublished", "IsBlinded", "OfflineSignature", "EncryptionKeys", "EncryptionKeyCount", "Leases", "LeaseCount", "Signature")}}
	mlsOpt = obs.Options{AllowOnly: map[string]map[string]bool{
		"MetaLeaseSet": set("Destination", "Published", "PublishedTime", "Expires", "ExpirationTime", "Flags", "HasOfflineKeys", "IsUnpublished",
			"OfflineSignature", "Signature", "NumEntries", "Entries", "GetEntry", "FindEntriesByType", "SortEntriesByCost"),
		"MetaLeaseSetEntry": set("Hash", "Type", "Expires", "ExpiresTime", "Cost")}}
)

func c08Adapters() []*adapters.Adapter {
	var out []*adapters.Adapter
	for _, a := range adapters.All {
		if a.C08 {
			out = append(out, a)
		}
	}
	return out
}

func (World) Generate(r *engine.RNG, tier string) *engine.Script {
	s := &engine.Script{Property: "C08", Config: map[string]int64{}}
	nbuf := r.Range(2, 4)
	s.Config["nbuf"] = int64(nbuf)
	if r.Chance(1, 5) {
		s.Config["bufsize"] = 72 * 1024
	}
	ads := c08Adapters()
	nops := r.Range(3, 14)
	if tier == "thorough" {
		nops = r.Range(3, 25)
	}
	live := 0
	for i := 0; i < nops; i++ {
		k := r.Intn(10)
		if live == 0 {
			k = 0
		}
		switch {
		case k < 4 && live < 6:
			a := ads[r.Intn(len(ads))]
			off := 0
			if r.Chance(1, 2) {
				off = r.PickInt(1, 2, 3, 7, 16, 100, 333)
			}
			// N = buffer, offset, followed-by-next-frame, placement (1 = flush with
			// the end of the buffer, so that len == cap for the parser),
			// baseline (1 = the value itself is not touched before the first
			// overwrite; its expected observation comes from a twin parsed
			// from a private copy of the same bytes)
			s.Ops = append(s.Ops, engine.Op{Op: "recv", Struct: a.Name, Shape: a.Gen(r.Fork()),
				N: []int64{int64(r.Intn(nbuf)), int64(off), int64(r.Intn(2)), int64(r.PickInt(0, 0, 0, 1)), int64(r.PickInt(0, 0, 1))}})
			live++
		case k < 8:
			sel := int64(r.Intn(64))
			if r.Chance(1, 6) {
				sel = -1
			}
			s.Ops = append(s.Ops, engine.Op{Op: "scribble", N: []int64{int64(r.Intn(nbuf)), int64(r.Intn(4)), sel, int64(r.Uint64() >> 1)}})
		default:
			s.Ops = append(s.Ops, engine.Op{Op: "scribble_returned", N: []int64{int64(r.Intn(16)), int64(r.Intn(4))}})
		}
	}
	return s
}

type liveValue struct {
	// full observation (with Bytes / Verify / Options) for LeaseSet2 and
	// MetaLeaseSet; judged only while no overwrite has touched the exempt byte
	// ranges (options, entry properties) of the buffer region it was parsed from
	fullBase      string
	fullOpt       *obs.Options
	exempt        [][2]int // absolute [start,end) ranges in its buffer
	exemptTouched bool
	restricted    bool            // opt leaves the exempt parts out
	mask          map[string]bool // members that are not stable without any overwrite
	fullMask      map[string]bool
	id            int
	ad            *adapters.Adapter
	val           any
	base          string
	buf           int
	off           int
	frame         *refmodel.Frame
	opt           *obs.Options
	dead          bool
}

// observe is the C08 observation: every exported argument-free accessor
// (recursively), read-only methods with simple synthesised arguments, and what
// the library functions that take the value as a parameter make of it.
//
// The consumers work on the whole serialisation, so for a LeaseSet2 or
// MetaLeaseSet (whose options the property leaves out) they belong to the
// full observation only — the one judged while the exempt bytes are intact.
func observe(v any, opt *obs.Options, whole bool, mask map[string]bool) string {
	return render(observeMembers(v, opt, whole), mask)
}

func observeMembers(v any, opt *obs.Options, whole bool) []obs.Member {
	o2 := *opt
	o2.Args, o2.ArgMethod = consume.SynthArgs, func(n string) bool { return consume.ReadOnlyName(n) && n != "Equals" && n != "Equal" }
	ms := obs.Members(v, &o2)
	if whole {
		ms = append(ms, obs.Member{Name: "(consumers)", Text: consume.Consumers(v)})
	}
	return ms
}

func render(ms []obs.Member, mask map[string]bool) string { return obs.Render(ms, mask) }

// unstable: see obs.Unstable. Between the two observations the same bytes are
// parsed once more from a private copy (by the caller), so that a member that
// counts parses is recognised too.
func unstable(a, b []obs.Member) map[string]bool { return obs.Unstable(a, b) }

func scribbleBytes(b []byte, mode int, seed uint64) {
	switch mode {
	case 0:
		for i := range b {
			b[i] = 0
		}
	case 1:
		for i := range b {
			b[i] = 0xFF
		}
	case 2:
		for i := range b {
			b[i] = ^b[i]
		}
	default:
		copy(b, refmodel.Expand(seed, "scribble", len(b)))
	}
}

var modeName = []string{"zero", "ones", "invert", "prng"}

// copySlices calls the accessors that are documented to return copies.
func copySlices(v any) (names []string, slices [][]byte) {
	add := func(n string, b []byte) {
		if len(b) > 0 {
			names = append(names, n)
			slices = append(slices, b)
		}
	}
	sig := func(pfx string, s signature.Signature) { add(pfx+"Signature.Bytes", s.Bytes()) }
	off := func(pfx string, o *offline_signature.OfflineSignature) {
		if o != nil {
			add(pfx+"OfflineSignature.TransientPublicKey", o.TransientPublicKey())
			add(pfx+"OfflineSignature.Signature", o.Signature())
		}
	}
	switch x := v.(type) {
	case *signature.Signature:
		if x != nil {
			sig("", *x)
		}
	case *offline_signature.OfflineSignature:
		off("", x)
	case *encrypted_leaseset.EncryptedLeaseSet:
		add("EncryptedLeaseSet.BlindedPublicKey", x.BlindedPublicKey())
		add("EncryptedLeaseSet.EncryptedInnerData", x.EncryptedInnerData())
		sig("EncryptedLeaseSet.", x.Signature())
		off("EncryptedLeaseSet.", x.OfflineSignature())
	case *lease_set2.LeaseSet2:
		sig("LeaseSet2.", x.Signature())
		off("LeaseSet2.", x.OfflineSignature())
	case *meta_leaseset.MetaLeaseSet:
		sig("MetaLeaseSet.", x.Signature())
		off("MetaLeaseSet.", x.OfflineSignature())
	case *lease_set.LeaseSet:
		sig("LeaseSet.", x.Signature())
	}
	return
}

func (World) Execute(t *testing.T, s *engine.Script) *engine.Outcome {
	o := engine.NewOutcome()
	synctest.Test(t, func(t *testing.T) { execute(s, o) })
	return o
}

func execute(s *engine.Script, o *engine.Outcome) {
	onPanic := func(where string, r any) {
		o.Panics++
		if o.PanicSample == "" {
			o.PanicSample = fmt.Sprintf("accessor %s: %v", where, r)
		}
	}
	nbuf := int(s.Cfg("nbuf", 2))
	if nbuf < 1 {
		nbuf = 1
	}
	bufSize := int(s.Cfg("bufsize", defaultBufSize))
	if bufSize < 1024 || bufSize > 1<<20 {
		bufSize = defaultBufSize
	}
	pool := make([][]byte, nbuf)
	for i := range pool {
		pool[i] = make([]byte, bufSize)
	}
	lastFrame := make([]*liveValue, nbuf) // most recent value parsed from each buffer
	var live []*liveValue

	// The reverse direction of the same aliasing: nothing a parsed value does later
	// (accessors, serialisers called by the observation) may write into a buffer
	// the transport owns. mirror holds what the buffer held when the last parse
	// returned plus what the transport wrote since.
	mirror := make([][]byte, nbuf)
	for i := range mirror {
		mirror[i] = make([]byte, bufSize)
	}
	wroteInto := map[int]bool{}
	checkBuffers := func(what string, ad string) {
		for b := range pool {
			if wroteInto[b] {
				continue
			}
			for k := range pool[b] {
				if pool[b][k] != mirror[b][k] {
					wroteInto[b] = true
					o.Violate("C08/library-wrote-into-the-callers-buffer/"+ad, "after %s byte %d of buffer %d changed from %02x to %02x although the transport did not touch it", what, k, b, mirror[b][k], pool[b][k])
					break
				}
			}
		}
	}
	// touched marks the live values of buffer b whose exempt ranges overlap [a,e)
	touched := func(b, a, e int) {
		for _, lv := range live {
			if lv.buf != b || lv.exemptTouched {
				continue
			}
			for _, r := range lv.exempt {
				if a < r[1] && r[0] < e {
					lv.exemptTouched = true
				}
			}
		}
	}
	check := func(what, class string) {
		for _, lv := range live {
			if lv.dead {
				continue
			}
			var got string
			if o.Guard("observe "+lv.ad.Name, func() { got = observe(lv.val, lv.opt, !lv.restricted, lv.mask) }) {
				lv.dead = true
				continue
			}
			if got != lv.base {
				lv.dead = true
				o.Violate("C08/"+class+"/"+lv.ad.Name, "value %d (%s, parsed from buffer %d at offset %d) changed after %s: %s", lv.id, lv.ad.Name, lv.buf, lv.off, what, diff(lv.base, got))
				o.Notes[fmt.Sprintf("value%d_frame_hex", lv.id)] = fmt.Sprintf("%x", lv.frame.Bytes)
				continue
			}
			if lv.fullOpt != nil && !lv.exemptTouched {
				var full string
				if o.Guard("observe(full) "+lv.ad.Name, func() { full = observe(lv.val, lv.fullOpt, true, lv.fullMask) }) {
					continue
				}
				o.Probe("full_observations_of_ls2_mls_with_options_untouched")
				if full != lv.fullBase {
					lv.dead = true
					o.Violate("C08/"+class+"/"+lv.ad.Name+"/serialisers-and-verify", "value %d (%s): the options bytes of its buffer were never touched, yet Bytes()/Verify() changed after %s: %s", lv.id, lv.ad.Name, what, diff(lv.fullBase, full))
				}
			}
		}
	}

	for i, op := range s.Ops {
		switch op.Op {
		case "recv":
			if len(op.N) < 3 || op.Shape == nil {
				continue
			}
			ad := adapters.ByName(op.Struct)
			if ad == nil {
				continue
			}
			rf, err := refmodel.Build(op.Shape)
			if err != nil {
				continue
			}
			b := int(op.N[0]) % nbuf
			off := int(op.N[1])
			follow := op.N[2] != 0
			n := len(rf.Bytes)
			if off+n+64 > bufSize {
				off = 0
			}
			if n+64 > bufSize {
				o.Probe("frame_too_large_for_buffer")
				continue
			}
			atEnd := len(op.N) > 3 && op.N[3] == 1
			if atEnd {
				// flush with the end of the buffer: the slice handed to the parser
				// has no spare capacity
				follow = false
				off = bufSize - n
				o.Fault("parse-with-len-equal-cap")
			}
			twinBaseline := len(op.N) > 4 && op.N[4] == 1
			if lastFrame[b] != nil {
				o.Fault("recycle")
			}
			// the transport writes the packet into its buffer
			touched(b, off, off+n+64)
			copy(pool[b][off:], rf.Bytes)
			end := off + n
			if follow {
				nx := refmodel.Expand(op.Shape.Seed, "next-frame", 48)
				copy(pool[b][end:], nx)
				end += len(nx)
				o.Fault("frame-followed-by-another")
			}
			copy(mirror[b], pool[b])
			if off > 0 {
				o.Fault("parse-at-nonzero-offset")
			}
			// recycling overwrote bytes older values may still point into
			check(fmt.Sprintf("op %d: buffer %d was recycled for a %s frame", i, b, ad.Name), "recycle")
			// (a pristine private copy of what the transport wrote, taken before the
			// library sees the buffer: twins and repeated parses use it)
			pristine := append([]byte(nil), pool[b][off:end]...)
			var res adapters.Result
			if o.Guard("parse "+ad.Name, func() { res = ad.Parse(pool[b][off:end], ad.Arg(op.Shape)) }) {
				copy(mirror[b], pool[b])
				continue
			}
			// What the parser itself did to its input while it ran is not the
			// property's subject; what is written into the buffer AFTER the parse has
			// returned (by accessors, serialisers, later parses of other frames into
			// values that still hold this memory) proves that a value shares it.
			if !bytes.Equal(mirror[b], pool[b]) {
				o.Probe("parser_wrote_into_its_input:" + ad.Name)
				copy(mirror[b], pool[b])
			}
			if !res.OK {
				o.Probe("reference_frame_rejected:" + ad.Name)
				o.FP.Step("recv-rejected", i, ad.Name)
				continue
			}
			lv := &liveValue{id: i, ad: ad, val: res.Val, buf: b, off: off, frame: rf}
			switch ad.Name {
			case "ReadLeaseSet2", "ReadMetaLeaseSet":
				c := ls2Opt
				if ad.Name == "ReadMetaLeaseSet" {
					c = mlsOpt
				}
				lv.opt = &c
				lv.restricted = true
				fo := plainOpt
				fo.OnPanic = onPanic
				lv.fullOpt = &fo
				for _, fl := range rf.Fields {
					if fl.Class == refmodel.ClsOptions || fl.Class == refmodel.ClsEntryProps {
						lv.exempt = append(lv.exempt, [2]int{off + fl.Start, off + fl.End})
					}
				}
			default:
				c := plainOpt
				lv.opt = &c
			}
			lv.opt.OnPanic = onPanic
			// what the value is expected to report: observed on the value itself
			// right after the parse, or — so that accessors which fill something in
			// lazily are also met for the first time AFTER an overwrite — on a twin
			// parsed from a private copy of the same bytes
			subject := lv.val
			if twinBaseline {
				private := append([]byte(nil), pristine...)
				var tr adapters.Result
				if o.Guard("parse twin "+ad.Name, func() { tr = ad.Parse(private, ad.Arg(op.Shape)) }) || !tr.OK {
					continue
				}
				subject = tr.Val
				o.Fault("value-untouched-until-first-overwrite")
			}
			again := func() {
				// parsing is something the consumer keeps doing: it must not count as
				// a change of the values it already holds
				private := append([]byte(nil), pristine...)
				ad.Parse(private, ad.Arg(op.Shape))
			}
			if o.Guard("observe "+ad.Name, func() {
				first := observeMembers(subject, lv.opt, !lv.restricted)
				again()
				lv.mask = unstable(first, observeMembers(subject, lv.opt, !lv.restricted))
				lv.base = render(first, lv.mask)
			}) {
				continue
			}
			if lv.fullOpt != nil {
				if o.Guard("observe(full) "+ad.Name, func() {
					first := observeMembers(subject, lv.fullOpt, true)
					again()
					lv.fullMask = unstable(first, observeMembers(subject, lv.fullOpt, true))
					lv.fullBase = render(first, lv.fullMask)
				}) {
					lv.fullOpt = nil
				}
			}
			for _, n := range engine.SortedKeys(lv.mask) {
				o.Probe("member_not_a_function_of_the_value:" + ad.Name + "." + n)
			}
			live = append(live, lv)
			lastFrame[b] = lv
			checkBuffers(fmt.Sprintf("op %d: parsing and observing a %s", i, ad.Name), ad.Name)
			o.Probe("values_parsed")
			o.FP.Step("recv", i, ad.Name, b, off, len(lv.base))
		case "scribble":
			if len(op.N) < 4 {
				continue
			}
			b := int(op.N[0]) % nbuf
			mode := int(op.N[1]) % 4
			sel := int(op.N[2])
			lf := lastFrame[b]
			a, e := 0, bufSize
			class := "whole-buffer"
			if sel >= 0 && lf != nil && len(lf.frame.Fields) > 0 {
				fl := lf.frame.Fields[sel%len(lf.frame.Fields)]
				a, e = lf.off+fl.Start, lf.off+fl.End
				class = fl.Class
			}
			if e <= a {
				continue
			}
			touched(b, a, e)
			scribbleBytes(pool[b][a:e], mode, uint64(op.N[3]))
			copy(mirror[b], pool[b])
			o.Fault("scribble:" + class)
			if lf != nil {
				o.Tag("(entry point, field class overwritten)", lf.ad.Name+"/"+class)
			}
			check(fmt.Sprintf("op %d: bytes [%d,%d) (%s) of buffer %d were overwritten (%s)", i, a, e, class, b, modeName[mode]), "aliases-input/"+class)
			o.FP.Step("scribble", i, b, a, e, mode)
		case "scribble_returned":
			if len(op.N) < 2 || len(live) == 0 {
				continue
			}
			lv := live[int(op.N[0])%len(live)]
			if lv.dead {
				continue
			}
			mode := int(op.N[1]) % 4
			var names []string
			var sl [][]byte
			if o.Guard("copy accessors "+lv.ad.Name, func() {
				names, sl = copySlices(lv.val)
				// a second round of calls: an accessor must return a copy every time
				n2, s2 := copySlices(lv.val)
				names, sl = append(names, n2...), append(sl, s2...)
			}) {
				continue
			}
			for k := range sl {
				scribbleBytes(sl[k], mode, uint64(i*31+k))
				o.Fault("scribble-returned:" + names[k])
				check(fmt.Sprintf("op %d: the slice returned by %s was overwritten (%s)", i, names[k], modeName[mode]), "returned-slice-aliases/"+names[k])
			}
			o.FP.Step("scribble_returned", i, lv.id, len(sl))
		}
	}
	check("the end of the history", "late-change")
	checkBuffers("the whole history (observations of live values)", "any")
	o.FP.Step("end", len(live))
}

func diff(a, b string) string {
	n := min(len(a), len(b))
	i := 0
	for i < n && a[i] == b[i] {
		i++
	}
	lo := max(0, i-80)
	clip := func(s string) string {
		if len(s) > 170 {
			return s[:170]
		}
		return s
	}
	return fmt.Sprintf("first difference at %d: ...%q became ...%q", i, clip(a[lo:]), clip(b[lo:]))
}
