// Package stream is the C03 world: a sender writes reference-encoded frames
// onto a simulated byte stream (or into datagrams with padding); the transport
// segments, coalesces, truncates and resets; a receiver frames the stream using
// nothing but the library's own (value, remainder, error) results.
package stream

import (
	"bytes"
	"fmt"
	"sort"
	"testing"
	"testing/synctest"

	"i2psim.local/sim/adapters"
	"i2psim.local/sim/engine"
	"i2psim.local/sim/obs"
	"i2psim.local/sim/refmodel"
)

type World struct{}

func (World) Name() string { return "stream" }

// obsOpt: accessors documented to expose bytes beyond the certificate's
// declared length are not part of "the parsed value" for invariant 4 (see
// DESIGN.md, C03 notes).
//
// RouterInfo.String is left out for cost only: it builds its text
// quadratically, which for a 64 KiB RouterInfo took 80 % of a whole batch; the
// same content is observed through Bytes() and the accessors.
var obsOpt = &obs.Options{Deny: map[string]bool{".RawBytes": true, ".ExcessBytes": true, "KeyCertificate.Data": true, "RouterInfo.String": true}}

func streamAdapters() []*adapters.Adapter {
	var out []*adapters.Adapter
	for _, a := range adapters.All {
		if !a.NoRem {
			out = append(out, a)
		}
	}
	return out
}

func (World) Generate(r *engine.RNG, tier string) *engine.Script {
	s := &engine.Script{Property: "C03", Config: map[string]int64{}}
	ads := streamAdapters()
	maxFrames := 6
	if tier == "thorough" {
		maxFrames = 12
	}
	nf := r.Range(1, maxFrames)
	mode := int64(0)
	if r.Chance(1, 4) {
		mode = 1
	}
	s.Config["mode"] = mode
	total := 0
	var bounds []int
	for i := 0; i < nf; i++ {
		a := ads[r.Intn(len(ads))]
		// bias toward the composite structures, where framing bugs live
		if r.Chance(1, 2) {
			a = adapters.ByName(r.PickStr("ReadRouterAddress", "ReadRouterInfo", "ReadLeaseSet2", "ReadMetaLeaseSet", "ReadEncryptedLeaseSet",
				"ReadKeysAndCert", "ReadDestination", "ReadMapping", "ReadCertificate", "NewKeyCertificate", "ReadOfflineSignature", "ReadI2PString", "ReadRouterIdentity"))
		}
		sh := a.Gen(r.Fork())
		if sh != nil && (r.Chance(1, 4) || sh.Ref != 0 && r.Chance(1, 2)) {
			// parsers do not verify: let the trailing signature look like more structure
			sh.SigFill = r.PickInt(1, 1, 2, 3)
		}
		op := engine.Op{Op: "frame", Struct: a.Name, Shape: sh}
		if mode == 1 {
			op.N = []int64{int64(r.PickInt(0, 1, 2, 3, 8, 40, 64)), int64(r.Intn(6))}
		}
		s.Ops = append(s.Ops, op)
		if f, err := refmodel.Build(sh); err == nil {
			// cut points biased by the field map
			base := total
			for _, fl := range f.Fields {
				if r.Chance(1, 4) {
					bounds = append(bounds, base+fl.Start+r.Intn(fl.End-fl.Start+1))
				}
				if (fl.Class == refmodel.ClsLen || fl.Class == refmodel.ClsCount || fl.Class == refmodel.ClsCertLen) && r.Chance(1, 2) {
					bounds = append(bounds, base+fl.Start, base+fl.Start+1, base+fl.End)
				}
			}
			ext := len(f.Bytes)
			if r.Chance(2, 3) {
				bounds = append(bounds, base+ext-1)
			}
			if r.Chance(1, 3) {
				bounds = append(bounds, base+ext)
			}
			if r.Chance(1, 3) {
				bounds = append(bounds, base+ext+1)
			}
			total += ext
		}
	}
	if mode == 0 {
		k := r.Intn(10)
		if total > 6000 && k < 2 {
			k = 9 // a byte-at-a-time peer on a 64 KiB frame costs quadratic time; use scripted cuts
		}
		switch k {
		case 0:
			s.Config["mss"] = 1 // slow peer: every cut point of every frame
		case 1:
			s.Config["mss"] = int64(r.PickInt(2, 3, 7, 64, 536, 1460))
		case 2:
			// one coalesced delivery of everything
		default:
			sort.Ints(bounds)
			last := -1
			for _, b := range bounds {
				if b > 0 && b < total && b != last {
					s.Faults = append(s.Faults, engine.Fault{Kind: "cut", At: int64(b)})
					last = b
				}
			}
		}
		if total > 0 && r.Chance(1, 4) {
			n := r.Range(1, 2)
			for i := 0; i < n; i++ {
				s.Faults = append(s.Faults, engine.Fault{Kind: "reset", At: int64(1 + r.Intn(total))})
			}
		}
	} else {
		// datagram mode: a few truncated deliveries as well
		for i := 0; i < nf; i++ {
			if r.Chance(1, 2) {
				s.Faults = append(s.Faults, engine.Fault{Kind: "truncate", At: int64(i), N: []int64{int64(r.Intn(1 << 16))}})
			}
		}
	}
	return s
}

type frame struct {
	ad     *adapters.Adapter
	arg    int
	f      *refmodel.Frame
	w      []byte
	obs0   string
	mask   map[string]bool // members that are not a function of the parsed bytes
	opIdx  int
	pad    []byte
	padTag string
}

func cp(b []byte) []byte { return append([]byte(nil), b...) }

func isSuffix(rem, in []byte) bool {
	if len(rem) > len(in) {
		return false
	}
	return bytes.Equal(rem, in[len(in)-len(rem):])
}

func fieldClassAt(f *refmodel.Frame, off int) string {
	if fl := f.FieldAt(off); fl != nil {
		return fl.Class
	}
	return "end"
}

func padding(f *frame, n int, kind int, seed uint64) ([]byte, string) {
	if n == 0 {
		return nil, "none"
	}
	switch kind {
	case 0:
		return refmodel.Expand(seed, "pad", n), "random"
	case 1:
		return make([]byte, n), "zeros"
	case 2:
		return bytes.Repeat([]byte{0xFF}, n), "ones"
	case 3:
		// looks like a continuation: the tail of the frame again
		p := make([]byte, n)
		for i := range p {
			p[i] = f.w[len(f.w)-1-(i%len(f.w))]
		}
		tail := f.w
		if len(tail) > n {
			tail = tail[len(tail)-n:]
		}
		copy(p, tail)
		return p, "frame-tail-again"
	case 4:
		p := bytes.Repeat([]byte{5, 0, 4, 0, 7, 0, 4}, n/7+1)[:n]
		return p, "another-certificate"
	default:
		p := bytes.Repeat([]byte{1, 'k', '=', 1, 'v', ';'}, n/6+1)[:n]
		return p, "more-pairs"
	}
}

// continuations are byte strings that look like more of the same structure:
// the frame from the start of its last / first repeated element to its end, the
// whole frame again, and filler. A parser that reads past the declared extent
// finds acceptable bytes there.
func continuations(fr *frame) [][]byte {
	var out [][]byte
	first, last := -1, -1
	for _, fl := range fr.f.Fields {
		if fl.Class == refmodel.ClsLease || fl.Class == refmodel.ClsEntry {
			if first < 0 {
				first = fl.Start
			}
			last = fl.Start
		}
	}
	if last >= 0 {
		out = append(out, cp(fr.w[last:]))
		if first != last {
			out = append(out, cp(fr.w[first:]))
		}
	}
	out = append(out, cp(fr.w), make([]byte, 600))
	return out
}

func (World) Execute(t *testing.T, s *engine.Script) *engine.Outcome {
	o := engine.NewOutcome()
	synctest.Test(t, func(t *testing.T) { execute(s, o) })
	return o
}

func execute(s *engine.Script, o *engine.Outcome) {
	opt := *obsOpt
	opt.OnPanic = func(where string, r any) {
		o.Panics++
		if o.PanicSample == "" {
			o.PanicSample = fmt.Sprintf("accessor %s: %v", where, r)
		}
	}
	var frames []*frame
	for i, op := range s.Ops {
		if op.Op != "frame" || op.Shape == nil {
			continue
		}
		ad := adapters.ByName(op.Struct)
		if ad == nil {
			continue
		}
		rf, err := refmodel.Build(op.Shape)
		if err != nil {
			o.Probe("shape_not_encodable")
			continue
		}
		fr := &frame{ad: ad, arg: ad.Arg(op.Shape), f: rf, w: rf.Bytes, opIdx: i}
		var res adapters.Result
		if o.Guard("parse exact "+ad.Name, func() { res = ad.Parse(cp(fr.w), fr.arg) }) {
			continue
		}
		o.Probe("frames_offered")
		if !res.OK {
			// C03 quantifies over accepted inputs; whether this should have
			// been accepted is C02.
			o.Probe("reference_frame_rejected:" + ad.Name)
			o.FP.Step("rejected", i, ad.Name)
			// ... but w followed by more bytes may be accepted (a parser with a
			// minimum size, or one that reads past the structure): whatever is
			// accepted must still consume exactly the declared extent, len(w).
			for k, x := range continuations(fr) {
				in := append(cp(fr.w), x...)
				var r2 adapters.Result
				if o.Guard("parse rejected-alone+continuation "+ad.Name, func() { r2 = ad.Parse(cp(in), fr.arg) }) || !r2.OK {
					continue
				}
				o.Probe("rejected_alone_accepted_with_more_bytes")
				where := fmt.Sprintf("continuation-%d", k)
				if !isSuffix(r2.Rem, in) {
					o.Violate("C03/remainder-not-a-suffix/"+ad.Name+"/"+where, "op %d %s: remainder of %d bytes is not a suffix of the %d-byte input", i, ad.Name, len(r2.Rem), len(in))
				} else if consumed := len(in) - len(r2.Rem); consumed != len(fr.w) {
					rel := "more"
					if consumed < len(fr.w) {
						rel = "less"
					}
					o.Violate("C03/extent/"+ad.Name+"/consumed-"+rel+"-than-extent/rejected-alone-"+where, "op %d %s: structure extent is %d bytes (rejected when given alone); followed by %d more bytes it is accepted and the parser consumed %d", i, ad.Name, len(fr.w), len(x), consumed)
				} else {
					// the parser itself says the structure is exactly w (it consumed
					// len(w) and handed the rest back), yet it refuses w when nothing
					// follows: the outcome for w changes when bytes are appended to it
					cls := "C03/complete-structure-rejected-unless-more-bytes-follow/" + ad.Name
					// two specific corners, found here and repaired by /repo 6a548f7: fixed
					// minimum sizes computed for Ed25519 identities, which a structure with
					// a DSA-SHA1 identity (40-byte signature) undercuts. The qualifier
					// stays so that a regression shows under the name it was reported by
					if ad.Name == "ReadLeaseSet2" && len(fr.w) < 499 {
						cls += "/shorter-than-the-parsers-fixed-minimum-of-499-bytes"
					}
					if ad.Name == "ReadMetaLeaseSet" && len(fr.w) < 505 {
						cls += "/shorter-than-the-parsers-fixed-minimum-of-505-bytes"
					}
					o.Violate(cls, "op %d %s: the %d bytes of the structure alone are rejected; followed by %d more bytes the parser accepts, consumes exactly those %d bytes and returns the rest", i, ad.Name, len(fr.w), len(x), len(fr.w))
					o.Notes[fmt.Sprintf("frame%d_hex", i)] = fmt.Sprintf("%x", fr.w)
				}
			}
			continue
		}
		if !isSuffix(res.Rem, fr.w) {
			o.Violate("C03/remainder-not-a-suffix/"+ad.Name+"/exact-input", "op %d %s: remainder of %d bytes is not a suffix of the %d-byte input", i, ad.Name, len(res.Rem), len(fr.w))
		}
		if len(res.Rem) != 0 {
			// the reference extent says the whole of w belongs to the structure
			o.Violate("C03/extent/"+ad.Name+"/consumed-less-than-extent-on-exact-input", "op %d %s: given exactly the %d bytes of the structure the parser left %d bytes over", i, ad.Name, len(fr.w), len(res.Rem))
			continue
		}
		// "the parsed value" is what is a function of the parsed bytes: members
		// that differ between two parses of the very same bytes (a parse counter,
		// interning statistics, a clock) are left out of every comparison
		first := obs.Members(res.Val, &opt)
		var resB adapters.Result
		if !o.Guard("parse exact again "+ad.Name, func() { resB = ad.Parse(cp(fr.w), fr.arg) }) && resB.OK {
			fr.mask = obs.Unstable(first, obs.Members(resB.Val, &opt))
			for _, n := range engine.SortedKeys(fr.mask) {
				o.Probe("member_not_a_function_of_the_input:" + ad.Name + "." + n)
			}
		}
		fr.obs0 = obs.Render(first, fr.mask)
		// the input is what lies below len(): bytes in the slice's spare capacity
		// (here: a plausible continuation) are not part of it
		{
			conts := continuations(fr)
			big := append(cp(fr.w), conts[0]...)
			var r3 adapters.Result
			if !o.Guard("parse with spare capacity "+ad.Name, func() { r3 = ad.Parse(big[:len(fr.w)], fr.arg) }) {
				o.Fault("input-with-spare-capacity")
				switch {
				case !r3.OK:
					o.Violate("C03/depends-on-spare-capacity/"+ad.Name+"/rejected", "op %d %s: the %d-byte structure is accepted from an exact slice but rejected from a slice of the same length with %d bytes of spare capacity", i, ad.Name, len(fr.w), len(conts[0]))
				case len(r3.Rem) != 0:
					o.Violate("C03/depends-on-spare-capacity/"+ad.Name+"/remainder", "op %d %s: remainder of %d bytes from an input of exactly the structure's %d bytes (the slice had spare capacity)", i, ad.Name, len(r3.Rem), len(fr.w))
				default:
					if got := obs.Render(obs.Members(r3.Val, &opt), fr.mask); got != fr.obs0 {
						o.Violate("C03/depends-on-spare-capacity/"+ad.Name+"/value", "op %d %s: value differs when the input slice has spare capacity: %s", i, ad.Name, firstDiff(fr.obs0, got))
					}
				}
			}
		}
		if len(op.N) >= 2 {
			fr.pad, fr.padTag = padding(fr, int(op.N[0]), int(op.N[1]), op.Shape.Seed^uint64(i))
		}
		frames = append(frames, fr)
		o.Probe("frames_accepted")
	}
	if s.Cfg("mode", 0) == 1 {
		datagrams(s, o, frames, &opt)
		return
	}
	connection(s, o, frames, &opt)
}

// judge checks a successful parse of buffer in (which starts with frame fr
// and holds have bytes of it) against the invariants. where names what
// follows the frame in the buffer.
func judge(o *engine.Outcome, fr *frame, in []byte, res adapters.Result, opt *obs.Options, where string) {
	ext := len(fr.w)
	consumed := len(in) - len(res.Rem)
	if consumed != ext {
		rel := "more"
		if consumed < ext {
			rel = "less"
		}
		o.Violate("C03/extent/"+fr.ad.Name+"/consumed-"+rel+"-than-extent/"+where, "op %d %s: structure extent is %d bytes, parser consumed %d of a %d-byte buffer (%s)", fr.opIdx, fr.ad.Name, ext, consumed, len(in), where)
		return
	}
	if got := obs.Render(obs.Members(res.Val, opt), fr.mask); got != fr.obs0 {
		o.Violate("C03/trailing-bytes-change-value/"+fr.ad.Name+"/"+where, "op %d %s: value parsed from frame++%d more bytes (%s) differs from value parsed from the frame alone: %s", fr.opIdx, fr.ad.Name, len(in)-ext, where, firstDiff(fr.obs0, got))
	}
}

func firstDiff(a, b string) string {
	n := min(len(a), len(b))
	i := 0
	for i < n && a[i] == b[i] {
		i++
	}
	lo := max(0, i-60)
	return fmt.Sprintf("at %d: ...%q vs ...%q", i, clip(a[lo:], 140), clip(b[lo:], 140))
}

func clip(s string, n int) string {
	if len(s) > n {
		return s[:n]
	}
	return s
}

func datagrams(s *engine.Script, o *engine.Outcome, frames []*frame, opt *obs.Options) {
	trunc := map[int]int{}
	for _, f := range s.Faults {
		if f.Kind == "truncate" && len(f.N) > 0 {
			trunc[int(f.At)] = int(f.N[0])
		}
	}
	for _, fr := range frames {
		in := append(cp(fr.w), fr.pad...)
		var res adapters.Result
		if o.Guard("parse datagram "+fr.ad.Name, func() { res = fr.ad.Parse(cp(in), fr.arg) }) {
			continue
		}
		if len(fr.pad) > 0 {
			o.Fault("padding:" + fr.padTag)
		}
		if res.HasRem && !isSuffix(res.Rem, in) {
			o.Violate("C03/remainder-not-a-suffix/"+fr.ad.Name+"/padded", "op %d %s: remainder of %d bytes is not a suffix of the input", fr.opIdx, fr.ad.Name, len(res.Rem))
		}
		if !res.OK {
			o.Violate("C03/padded-frame-rejected/"+fr.ad.Name+"/"+fr.padTag, "op %d %s: accepted alone (%d bytes) but rejected when followed by %d bytes of %s padding", fr.opIdx, fr.ad.Name, len(fr.w), len(fr.pad), fr.padTag)
		} else {
			judge(o, fr, in, res, opt, "padding:"+fr.padTag)
		}
		o.FP.Step("dgram", fr.opIdx, res.OK, len(res.Rem))
		if k, ok := trunc[fr.opIdx]; ok && len(fr.w) > 0 {
			k = k % len(fr.w)
			var r2 adapters.Result
			if o.Guard("parse truncated "+fr.ad.Name, func() { r2 = fr.ad.Parse(cp(fr.w[:k]), fr.arg) }) {
				continue
			}
			o.Fault("truncated-datagram")
			if r2.HasRem && !isSuffix(r2.Rem, fr.w[:k]) {
				o.Violate("C03/remainder-not-a-suffix/"+fr.ad.Name+"/truncated", "op %d %s: cut at %d: remainder of %d bytes is not a suffix", fr.opIdx, fr.ad.Name, k, len(r2.Rem))
			}
			if r2.OK {
				o.Violate("C03/early-emission/"+fr.ad.Name+"/"+fieldClassAt(fr.f, k), "op %d %s: a proper prefix (%d of %d bytes, cut inside %s) is reported as a successful parse", fr.opIdx, fr.ad.Name, k, len(fr.w), fieldClassAt(fr.f, k))
			}
			o.FP.Step("trunc", fr.opIdx, k, r2.OK)
		}
	}
}

func connection(s *engine.Script, o *engine.Outcome, frames []*frame, opt *obs.Options) {
	var stream []byte
	var starts []int
	for _, fr := range frames {
		starts = append(starts, len(stream))
		stream = append(stream, fr.w...)
	}
	total := len(stream)
	if total == 0 {
		return
	}
	// segment boundaries
	cut := map[int]bool{}
	mss := int(s.Cfg("mss", 0))
	if mss > 0 {
		for k := mss; k < total; k += mss {
			cut[k] = true
		}
		o.Fault(fmt.Sprintf("mss:%d", mss))
		if mss == 1 {
			o.Probe("mss1_runs")
		}
	}
	reset := map[int]bool{}
	for _, f := range s.Faults {
		k := int(f.At)
		if k <= 0 || k > total {
			continue
		}
		switch f.Kind {
		case "cut":
			if k < total {
				cut[k] = true
			}
		case "reset":
			reset[k] = true
			cut[k] = true
		}
	}
	var pts []int
	for k := range cut {
		pts = append(pts, k)
	}
	pts = append(pts, total)
	sort.Ints(pts)

	var buf []byte
	expect := 0     // index of the frame the receiver waits for
	skipUntil := -1 // after a reset: stream offset where the next connection starts
	emitted := 0
	earlyDone := map[int]bool{}
	deliveries := 0
	pos := 0
	for _, end := range pts {
		if end <= pos {
			continue
		}
		seg := stream[pos:end]
		segStart := pos
		pos = end
		if skipUntil >= 0 {
			// bytes of the frame the reset fell into are lost with the old
			// connection; the new connection starts at the next frame start
			if end <= skipUntil {
				continue
			}
			if segStart < skipUntil {
				seg = stream[skipUntil:end]
			}
			skipUntil = -1
		}
		buf = append(buf, seg...)
		deliveries++
		// classify the delivery for the fault counters
		if expect < len(frames) {
			within := end - starts[expect]
			ext := len(frames[expect].w)
			switch {
			case within < ext:
				cls := fieldClassAt(frames[expect].f, within)
				o.Fault("cut-inside:" + cls)
				o.Tag("(entry point, field a cut fell into)", frames[expect].ad.Name+"/"+fieldNameAt(frames[expect].f, within))
				if within == ext-1 {
					o.Fault("cut-at-extent-1")
				}
			case within == ext:
				o.Fault("cut-at-extent")
			default:
				o.Fault("coalesced-delivery")
				if within == ext+1 {
					o.Fault("cut-at-extent+1")
				}
			}
		}
		for expect < len(frames) && len(buf) > 0 {
			fr := frames[expect]
			ext := len(fr.w)
			in := cp(buf)
			var res adapters.Result
			if o.Guard("parse stream "+fr.ad.Name, func() { res = fr.ad.Parse(in, fr.arg) }) {
				res = adapters.Result{}
			}
			if res.HasRem && !isSuffix(res.Rem, buf) {
				o.Violate("C03/remainder-not-a-suffix/"+fr.ad.Name+"/stream", "op %d %s: with %d bytes buffered the returned remainder (%d bytes) is not a suffix of the input", fr.opIdx, fr.ad.Name, len(buf), len(res.Rem))
			}
			o.FP.Step("try", expect, len(buf), res.OK, len(res.Rem))
			if len(buf) < ext {
				if res.OK && !earlyDone[expect] {
					earlyDone[expect] = true
					cls := fieldClassAt(fr.f, len(buf))
					o.Violate("C03/early-emission/"+fr.ad.Name+"/"+cls, "op %d %s: emitted after %d of %d bytes (cut inside %s '%s'); consumed %d", fr.opIdx, fr.ad.Name, len(buf), ext, cls, fieldNameAt(fr.f, len(buf)), len(buf)-len(res.Rem))
				}
				break // wait for more bytes
			}
			where := "exact"
			if len(buf) > ext {
				where = "next-frame"
			}
			if !res.OK {
				if !earlyDone[expect] {
					o.Violate("C03/complete-frame-rejected/"+fr.ad.Name+"/"+where, "op %d %s: all %d bytes of the frame are buffered (%d in buffer) but the parser fails; it accepts the frame alone", fr.opIdx, fr.ad.Name, ext, len(buf))
				}
			} else if !earlyDone[expect] {
				judge(o, fr, buf, res, opt, where)
				emitted++
			}
			buf = buf[ext:]
			expect++
		}
		if reset[end] {
			// connection reset after `end` bytes: the partial frame is dropped
			o.Fault("reset")
			if len(buf) > 0 {
				o.Fault("reset-inside-frame")
				expect++ // the interrupted frame is lost
			}
			buf = nil
			if expect < len(frames) {
				skipUntil = starts[expect]
			} else {
				skipUntil = total
			}
		}
	}
	// progress once faults stop: everything that was completely delivered on
	// a live connection has been emitted or judged above; nothing may be left
	// waiting with its bytes complete.
	if skipUntil < 0 && expect < len(frames) && len(buf) >= len(frames[expect].w) {
		o.Violate("C03/no-progress/"+frames[expect].ad.Name, "frame %d is completely buffered but was never emitted", expect)
	}
	o.ProbeN("deliveries", int64(deliveries))
	o.ProbeN("frames_emitted", int64(emitted))
	o.FP.Step("end", expect, emitted, len(buf))
}

func fieldNameAt(f *refmodel.Frame, off int) string {
	if fl := f.FieldAt(off); fl != nil {
		return fl.Name
	}
	return "end"
}
