package auth

import (
	"fmt"
	"time"

	"github.com/go-i2p/common/data"
	"github.com/go-i2p/common/destination"
	"github.com/go-i2p/common/encrypted_leaseset"
	"github.com/go-i2p/common/key_certificate"
	"github.com/go-i2p/common/lease"
	"github.com/go-i2p/common/lease_set"
	"github.com/go-i2p/common/lease_set2"
	"github.com/go-i2p/common/meta_leaseset"
	"github.com/go-i2p/common/offline_signature"
	"github.com/go-i2p/common/router_address"
	"github.com/go-i2p/common/router_identity"
	"github.com/go-i2p/common/router_info"
	"github.com/go-i2p/crypto/dsa"
	"github.com/go-i2p/crypto/ecdsa"
	i2ped "github.com/go-i2p/crypto/ed25519"
	elgamal "github.com/go-i2p/crypto/elg"
	"github.com/go-i2p/crypto/types"

	"i2psim.local/sim/engine"
	"i2psim.local/sim/refmodel"
)

// floodfill does what a router does with a received store: parse, verify.
// It returns whether the library accepted the message, how many bytes the
// parser consumed (0 if it returns no remainder), and the parsed value.
func floodfill(kind string, raw []byte, idSig int, idKey []byte) (accepted bool, consumed int, parsed bool, val any) {
	switch kind {
	case "rinfo":
		ri, rem, err := router_info.ReadRouterInfo(raw)
		if err != nil {
			return false, 0, false, nil
		}
		ok, verr := ri.VerifySignature()
		return ok && verr == nil, len(raw) - len(rem), true, &ri
	case "leaseset":
		ls, err := lease_set.ReadLeaseSet(raw)
		if err != nil {
			return false, 0, false, nil
		}
		return ls.Verify() == nil, 0, true, &ls
	case "ls2":
		ls, rem, err := lease_set2.ReadLeaseSet2(raw)
		if err != nil {
			return false, 0, false, nil
		}
		return ls.Verify() == nil, len(raw) - len(rem), true, &ls
	case "mls":
		ls, rem, err := meta_leaseset.ReadMetaLeaseSet(raw)
		if err != nil {
			return false, 0, false, nil
		}
		return ls.Verify() == nil, len(raw) - len(rem), true, &ls
	case "els":
		ls, rem, err := encrypted_leaseset.ReadEncryptedLeaseSet(raw)
		if err != nil {
			return false, 0, false, nil
		}
		return ls.Verify() == nil, len(raw) - len(rem), true, &ls
	case "offsig":
		os, rem, err := offline_signature.ReadOfflineSignature(raw, uint16(idSig))
		if err != nil {
			return false, 0, false, nil
		}
		ok, verr := os.VerifySignature(idKey)
		return ok && verr == nil, len(raw) - len(rem), true, &os
	}
	return false, 0, false, nil
}

// signingPrivateKey turns a reference key into the dependency's private key
// type for the library's constructors.
func signingPrivateKey(k *refmodel.SignKey) (types.SigningPrivateKey, error) {
	pb := k.PrivBytes()
	if pb == nil {
		return nil, fmt.Errorf("no private key for type %d", k.Type)
	}
	switch k.Type {
	case refmodel.SigEd25519, refmodel.SigRedDSA, refmodel.SigEd25519ph:
		p, err := i2ped.NewEd25519PrivateKey(pb)
		if err != nil {
			return nil, err
		}
		return &p, nil
	case refmodel.SigDSA:
		p, err := dsa.NewDSAPrivateKey(pb)
		if err != nil {
			return nil, err
		}
		return p, nil
	case refmodel.SigP256:
		return ecdsa.NewECP256PrivateKey(pb)
		// P-384: the dependency's key type does not implement
		// types.SigningPrivateKey, so no constructor can be given one.
	}
	return nil, fmt.Errorf("unsupported type %d", k.Type)
}

// constructed is what a library signing constructor produced.
type constructed struct {
	kind    string
	verify  func() error
	bytes   func() ([]byte, error)
	idSig   int
	idKey   []byte
	skipped string // non-empty: the constructor refused (not a C06 matter)
}

func libDestination(id *refmodel.Identity) (destination.Destination, error) {
	d, _, err := destination.ReadDestination(append([]byte(nil), id.Bytes...))
	return d, err
}

func leases2(sh *engine.Shape) []lease.Lease2 {
	var out []lease.Lease2
	for i := 0; i < sh.N; i++ {
		var l lease.Lease2
		copy(l[:32], refmodel.Expand(sh.Seed+uint64(i), "c06-gw", 32))
		l[35] = byte(i + 1)
		end := uint32(0)
		if 3+i < len(sh.U) {
			end = uint32(sh.U[3+i])
		}
		l[36], l[37], l[38], l[39] = byte(end>>24), byte(end>>16), byte(end>>8), byte(end)
		out = append(out, l)
	}
	return out
}

func goMap(opts [][2]string) map[string]string {
	m := map[string]string{}
	for _, kv := range opts {
		m[kv[0]] = kv[1]
	}
	return m
}

// construct calls the library's signing constructor for a shape with the
// private key matching the contained identity.
func construct(sh *engine.Shape) (*constructed, error) {
	c, _, err := constructWithValue(sh)
	return c, err
}

// Construct builds a value with the library's signing constructor and returns
// it (pointer) for worlds that need the value itself (C18). ok=false when the
// constructor refused.
func Construct(sh *engine.Shape) (val any, ok bool) {
	c, v, err := constructWithValue(sh)
	if err != nil || c == nil || c.skipped != "" || v == nil {
		return nil, false
	}
	return v, true
}

// ConstructWithBytes is Construct plus the serialisation of the built value.
func ConstructWithBytes(sh *engine.Shape) (val any, b []byte, ok bool) {
	c, v, err := constructWithValue(sh)
	if err != nil || c == nil || c.skipped != "" || v == nil {
		return nil, nil, false
	}
	b, err = c.bytes()
	if err != nil {
		return nil, nil, false
	}
	return v, b, true
}

func constructWithValue(sh *engine.Shape) (*constructed, any, error) {
	id := refmodel.NewIdentity(sh.IdentSeed, sh.Sig, sh.Crypto, certOf(sh), sh.Excess)
	c := &constructed{kind: sh.Kind, idSig: id.Sig, idKey: id.Key.Pub}
	var val any
	switch sh.Kind {
	case "rinfo":
		ri, _, err := router_identity.ReadRouterIdentity(append([]byte(nil), id.Bytes...))
		if err != nil {
			c.skipped = "identity refused by ReadRouterIdentity"
			return c, val, nil
		}
		var addrs []*router_address.RouterAddress
		for i := range sh.Sub {
			a := &sh.Sub[i]
			ra, err := router_address.NewRouterAddress(uint8(a.U[0]), time.Time{}, a.Str, goMap(a.Opts))
			if err != nil {
				c.skipped = "address refused by NewRouterAddress"
				return c, val, nil
			}
			addrs = append(addrs, ra)
		}
		pk, err := signingPrivateKey(id.Key)
		if err != nil {
			c.skipped = err.Error()
			return c, val, nil
		}
		pub := time.UnixMilli(int64(sh.U[0])).Add(time.Duration((sh.Seed>>20)%1000000) * time.Nanosecond) // sub-millisecond part
		info, err := router_info.NewRouterInfo(ri, pub, addrs, goMap(sh.Opts), pk, id.Sig)
		if err != nil {
			c.skipped = "NewRouterInfo: " + short(err)
			return c, val, nil
		}
		c.verify = func() error {
			ok, err := info.VerifySignature()
			if err != nil {
				return err
			}
			if !ok {
				return fmt.Errorf("VerifySignature()=false")
			}
			return nil
		}
		c.bytes = info.Bytes
		val = info
	case "leaseset":
		d, err := libDestination(id)
		if err != nil {
			c.skipped = "destination refused"
			return c, val, nil
		}
		ek := refmodel.Expand(sh.Seed, "c06-elg", 256)
		ek[0] = 0x01 | (ek[0] & 0x7F)
		var encKey elgamal.ElgPublicKey
		copy(encKey[:], ek)
		rk, err := d.SigningPublicKey()
		if err != nil {
			c.skipped = "no signing key"
			return c, val, nil
		}
		if (sh.Seed>>8)%2 == 0 {
			// the LeaseSet's own signing_key field is a revocation key: any key
			// of the Destination's type is admissible, it need not be the
			// Destination's key
			other := refmodel.NewSignKey(sh.Seed|1<<40, id.Sig)
			if ok, kerr := key_certificate.ConstructSigningPublicKeyByType(other.Pub, id.Sig); kerr == nil && ok != nil {
				rk = ok
			}
		}
		var ls []lease.Lease
		for i := 0; i < sh.N; i++ {
			var l lease.Lease
			copy(l[:32], refmodel.Expand(sh.Seed+uint64(i), "c06-gw", 32))
			l[35] = byte(i + 1)
			v := sh.U[i]
			for b := 0; b < 8; b++ {
				l[36+b] = byte(v >> (56 - 8*b))
			}
			ls = append(ls, l)
		}
		pk, err := signingPrivateKey(id.Key)
		if err != nil {
			c.skipped = err.Error()
			return c, val, nil
		}
		set, err := lease_set.NewLeaseSet(d, encKey, rk, ls, pk)
		if err != nil {
			c.skipped = "NewLeaseSet: " + short(err)
			return c, val, nil
		}
		c.verify = set.Verify
		c.bytes = set.Bytes
		val = set
	case "ls2":
		d, err := libDestination(id)
		if err != nil {
			c.skipped = "destination refused"
			return c, val, nil
		}
		var off *offline_signature.OfflineSignature
		signKey := id.Key
		if sh.Offline != nil {
			tk := refmodel.NewSignKey(sh.Offline.Seed, sh.Offline.Transient)
			edp := id.Key.Ed25519Private()
			if edp == nil {
				c.skipped = "CreateOfflineSignature takes an Ed25519 destination key only"
				return c, val, nil
			}
			o, err := offline_signature.CreateOfflineSignature(uint32(sh.Offline.Expires), uint16(sh.Offline.Transient), tk.Pub, edp, uint16(id.Sig))
			if err != nil {
				c.skipped = "CreateOfflineSignature: " + short(err)
				return c, val, nil
			}
			off = &o
			signKey = tk
		}
		var opts data.Mapping
		if len(sh.Opts) > 0 {
			m, err := data.GoMapToMapping(goMap(sh.Opts))
			if err != nil {
				c.skipped = "options refused"
				return c, val, nil
			}
			opts = *m
		}
		var keys []lease_set2.EncryptionKey
		for i := 0; i < max(1, sh.Size); i++ {
			// every key type with its usual length, and unknown types with an
			// arbitrary (also zero) length: the constructor admits them all
			kt, kl := uint16(4), 32
			switch (sh.Seed >> (16 + 3*uint(i%8))) % 8 {
			case 0:
				kt, kl = 0, 256
			case 1:
				kt, kl = 5, 32
			case 2:
				kt, kl = 65280, int((sh.Seed>>24)%70)
			case 3:
				kt, kl = 255, 0
			}
			keys = append(keys, lease_set2.EncryptionKey{KeyType: kt, KeyLen: uint16(kl), KeyData: refmodel.Expand(sh.Seed+uint64(i), "c06-x", kl)})
		}
		flags := uint16(sh.U[2])
		if off != nil {
			flags |= 1
		} else {
			flags &^= 1
		}
		var sk any = signKey.Ed25519Private()
		if edp := signKey.Ed25519Private(); edp == nil {
			if pk, err := signingPrivateKey(signKey); err == nil {
				sk = pk
			}
		} else {
			switch (sh.Seed >> 10) % 4 { // every accepted form of an Ed25519 key
			case 1:
				var a [64]byte
				copy(a[:], edp)
				sk = a
			case 2:
				sk = []byte(edp)
			case 3:
				if pk, err := signingPrivateKey(signKey); err == nil {
					sk = pk
				}
			}
		}
		ls, err := lease_set2.NewLeaseSet2(d, uint32(sh.U[0]), uint16(sh.U[1]), flags, off, opts, keys, leases2(sh), sk)
		if err != nil {
			c.skipped = "NewLeaseSet2: " + short(err)
			return c, val, nil
		}
		c.verify = ls.Verify
		c.bytes = ls.Bytes
		val = &ls
	case "els":
		bk := refmodel.NewSignKey(sh.IdentSeed, sh.Sig)
		c.idSig, c.idKey = sh.Sig, bk.Pub
		var off *offline_signature.OfflineSignature
		signKey := bk
		if sh.Offline != nil {
			tk := refmodel.NewSignKey(sh.Offline.Seed, sh.Offline.Transient)
			edp := bk.Ed25519Private()
			if edp == nil {
				c.skipped = "CreateOfflineSignature takes an Ed25519 key only"
				return c, val, nil
			}
			o, err := offline_signature.CreateOfflineSignature(uint32(sh.Offline.Expires), uint16(sh.Offline.Transient), tk.Pub, edp, uint16(sh.Sig))
			if err != nil {
				c.skipped = "CreateOfflineSignature: " + short(err)
				return c, val, nil
			}
			off = &o
			signKey = tk
		}
		edp := signKey.Ed25519Private()
		if edp == nil {
			c.skipped = "NewEncryptedLeaseSet signs with Ed25519 keys only"
			return c, val, nil
		}
		var sk any
		switch (sh.Seed >> 8) % 4 {
		case 0:
			sk = edp
		case 1:
			var a [64]byte
			copy(a[:], edp)
			sk = a
		case 2:
			sk = []byte(edp)
		default:
			p, _ := i2ped.NewEd25519PrivateKey(edp)
			sk = &p
		}
		flags := uint16(sh.U[2]) &^ 1
		if off != nil {
			flags |= 1
		}
		inner := refmodel.Expand(sh.Seed, "c06-inner", sh.Size)
		var els *encrypted_leaseset.EncryptedLeaseSet
		var err error
		if (sh.Seed>>12)%3 == 0 {
			// the other constructor: from a (blinded) Destination whose signing key is the blinded key
			bid := refmodel.NewIdentity(sh.IdentSeed, sh.Sig, refmodel.EncX25519, "key", 0)
			bd, derr := libDestination(bid)
			if derr != nil {
				c.skipped = "blinded destination refused"
				return c, val, nil
			}
			els, err = encrypted_leaseset.NewEncryptedLeaseSetFromDestination(bd, uint32(sh.U[0]), uint16(sh.U[1]), flags, off, inner, sk)
		} else {
			els, err = encrypted_leaseset.NewEncryptedLeaseSet(uint16(sh.Sig), append([]byte(nil), bk.Pub...), uint32(sh.U[0]), uint16(sh.U[1]), flags, off, inner, sk)
		}
		if err != nil {
			c.skipped = "NewEncryptedLeaseSet: " + short(err)
			return c, val, nil
		}
		c.verify = els.Verify
		c.bytes = els.Bytes
		val = els
	case "offsig":
		tk := refmodel.NewSignKey(sh.Offline.Seed, sh.Offline.Transient)
		edp := id.Key.Ed25519Private()
		if edp == nil {
			c.skipped = "CreateOfflineSignature takes an Ed25519 key only"
			return c, val, nil
		}
		o, err := offline_signature.CreateOfflineSignature(uint32(sh.Offline.Expires), uint16(sh.Offline.Transient), tk.Pub, edp, uint16(id.Sig))
		if err != nil {
			c.skipped = "CreateOfflineSignature: " + short(err)
			return c, val, nil
		}
		key := id.Key.Pub
		c.verify = func() error {
			ok, err := o.VerifySignature(key)
			if err != nil {
				return err
			}
			if !ok {
				return fmt.Errorf("VerifySignature()=false")
			}
			return nil
		}
		c.bytes = func() ([]byte, error) { return o.Bytes(), nil }
		val = &o
	default:
		return nil, nil, fmt.Errorf("no constructor for %s", sh.Kind)
	}
	return c, val, nil
}

func certOf(sh *engine.Shape) string {
	if sh.Cert == "" {
		return "key"
	}
	return sh.Cert
}

func short(err error) string {
	s := err.Error()
	for i, c := range s {
		if c == '\n' {
			return s[:i]
		}
	}
	if len(s) > 100 {
		s = s[:100]
	}
	return s
}
