// Package auth is the C05 / C06 world: honest publishers, a floodfill that
// parses and verifies what it receives, and a transport that tampers with
// messages in flight using everything it has recorded so far (C05), or stays
// out of the way while publishers use the library's own signing constructors
// (C06).
package auth

import (
	"bytes"
	"crypto/rand"
	"encoding/binary"
	"fmt"
	"sort"
	"strings"
	"testing"
	"testing/synctest"
	"time"

	"i2psim.local/sim/adapters"
	"i2psim.local/sim/consume"
	"i2psim.local/sim/engine"
	"i2psim.local/sim/obs"
	"i2psim.local/sim/refmodel"
	"i2psim.local/sim/seams"
)

type World struct{}

func (World) Name() string { return "auth" }

var kinds = []string{"rinfo", "leaseset", "ls2", "ls2", "mls", "els", "offsig"}

// edge32 / edge16 draw header values with the special values first: a
// verifier that takes a short cut for "zero", "maximum" or "unset" fields must
// meet them.
func edge32(r *engine.RNG) uint64 {
	if r.Chance(1, 4) {
		return r.PickU64(0, 1, 1<<31-1, 1<<31, 1<<32-1)
	}
	return r.Uint64() & 0xFFFFFFFF
}

func edge16(r *engine.RNG) uint64 {
	if r.Chance(1, 4) {
		return r.PickU64(0, 1, 660, 32767, 32768, 65535)
	}
	return r.Uint64() & 0xFFFF
}

func genShape(r *engine.RNG, kind string, c06 bool) *engine.Shape {
	sh := &engine.Shape{Kind: kind, Seed: r.Uint64() | 1, IdentSeed: 1 + uint64(r.Intn(8)), Cert: "key"}
	off := func(ts ...int) {
		if r.Chance(2, 5) {
			exp := edge32(r)
			if c06 && exp == 0 {
				exp = 1 // CreateOfflineSignature refuses a zero expiry
			}
			sh.Offline = &engine.OfflineShape{Transient: ts[r.Intn(len(ts))], Expires: exp, Seed: 100 + uint64(r.Intn(8))}
		}
	}
	switch kind {
	case "rinfo":
		sh.Sig, sh.Crypto = r.PickInt(7, 7, 7, 7, 0, 1), r.PickInt(4, 4, 0)
		sh.U = []uint64{1 + r.Uint64()>>22, 0}
		if r.Chance(1, 8) {
			sh.U[0] = r.PickU64(1, 999, 1000, 1<<31*1000, (1<<32-1)*1000)
		}
		na := r.PickInt(0, 1, 1, 2, 3)
		if c06 && r.Chance(1, 12) {
			na = r.PickInt(8, 255)
		}
		for i := 0; i < na; i++ {
			a := engine.Shape{Kind: "raddr", U: []uint64{uint64(r.Intn(256)), 0}, Str: r.PickStr("NTCP2", "SSU2", "x", "ntcp2", "=;", strings.Repeat("S", 255), "\x00")}
			a.Opts, _ = adapters.Options(r, 5)
			sh.Sub = append(sh.Sub, a)
		}
		sh.Opts, sh.Unsorted = adapters.Options(r, 8)
		if c06 {
			sh.Unsorted = false
		}
	case "leaseset":
		sh.Ref = adapters.RefKnob(r)
		sh.Sig, sh.Crypto = r.PickInt(7, 7, 0, 0, 11, 1, 2), 0
		if sh.Sig == 0 && r.Chance(1, 2) {
			sh.Cert = "null"
		}
		sh.N = r.PickInt(0, 1, 2, 3, 16)
		for i := 0; i < sh.N; i++ {
			if r.Chance(1, 5) {
				sh.U = append(sh.U, r.PickU64(0, 1, 1<<63-1, 1<<53))
			} else {
				sh.U = append(sh.U, r.Uint64()>>uint(1+r.Intn(30)))
			}
		}
	case "ls2", "mls":
		sh.Ref = adapters.RefKnob(r)
		sh.Sig, sh.Crypto = r.PickInt(7, 7, 7, 11, 11, 0, 0, 1), r.PickInt(4, 0)
		if sh.Sig == 0 && r.Chance(1, 2) {
			sh.Cert, sh.Crypto = "null", 0 // classic ElGamal + DSA destination
		}
		sh.U = []uint64{edge32(r), edge16(r), uint64(r.Intn(4)) << 1}
		if r.Chance(1, 12) {
			sh.U[2] |= uint64(1+r.Intn(1<<13-1)) << 3 // reserved flag bits: the constructors do not refuse them
		}
		off(7, 7, 11, 8, 0, 1)
		if kind == "ls2" {
			sh.N = r.PickInt(1, 1, 2, 3, 5, 16)
			if r.Chance(1, 10) {
				sh.N = 0
			}
			sh.Size = r.PickInt(1, 1, 2, 3)
			if r.Chance(1, 2) {
				sh.Opts, sh.Unsorted = adapters.Options(r, 6)
				if c06 {
					sh.Unsorted = false
				}
			}
		} else {
			sh.N = r.PickInt(1, 1, 2, 4, 16)
		}
		for i := 0; i < sh.N; i++ {
			sh.U = append(sh.U, edge32(r))
		}
	case "els":
		sh.Sig = r.PickInt(7, 7, 7, 11, 11, 0, 1)
		sh.Size = r.PickInt(61, 61, 80, 200, 600)
		if c06 && r.Chance(1, 10) {
			sh.Size = r.PickInt(65534, 65535, 65536, 65537, 70000) // around the 16-bit inner length field
		}
		sh.U = []uint64{edge32(r), max(1, edge16(r)), uint64(r.Intn(2)) << 1}
		off(7, 7, 11, 8, 0)
	case "offsig":
		sh.Sig, sh.Crypto = r.PickInt(7, 7, 11), 4
		sh.Offline = &engine.OfflineShape{Transient: r.PickInt(7, 7, 11, 8, 0, 1, 2, 3, 4), Expires: max(1, edge32(r)), Seed: 100 + uint64(r.Intn(8))}
	}
	return sh
}

var byteFaults = []string{"bitflip", "bitflip", "rewrite", "mapping_slack", "mapping_slack", "cert_slack", "cert_slack", "peer_slack", "element_smuggle", "element_smuggle", "element_swap", "element_swap", "type_confusion", "type_confusion", "flag_downgrade", "after_sig", "sig_swap", "key_subst", "replay", "revocation_key_forgery"}
var shapeFaults = []string{"offline_forgery", "offline_forgery", "offline_transplant", "store_confusion", "offline_extension", "offline_extension"}

func (World) Generate(r *engine.RNG, tier string) *engine.Script {
	prop := engine.Property
	if prop != "C06" {
		prop = "C05"
	}
	s := &engine.Script{Property: prop, Config: map[string]int64{}}
	n := r.Range(1, 10)
	if tier == "thorough" {
		n = r.Range(1, 40)
	}
	faultRate := r.PickInt(0, 1, 2, 2, 3) // of 3
	if prop == "C06" {
		faultRate = 0
	}
	if prop != "C06" {
		// the floodfill keeps running: what it rejected is delivered to it again at
		// the end of the run, after a pause and (in some runs) after it has verified
		// this many other, honest stores of the same kind
		if r.Chance(1, 2) {
			s.Config["redeliver_after_s"] = int64(r.PickInt(0, 1, 60, 3600, 90000))
		}
		if r.Chance(1, 30) {
			s.Config["redeliver_after_s"] = int64(r.PickInt(0, 1, 60, 3600))
			s.Config["traffic"] = int64(r.PickInt(40, 300, 300, 600, 1100))
			s.Config["traffic_seed"] = int64(r.Uint64() >> 1)
		}
	}
	for i := 0; i < n; i++ {
		kind := kinds[r.Intn(len(kinds))]
		if prop == "C06" && kind == "mls" {
			kind = "ls2" // the library has no MetaLeaseSet constructor
		}
		op := engine.Op{Op: "publish", Struct: kind, Shape: genShape(r.Fork(), kind, prop == "C06"), N: []int64{int64(i)}}
		if prop == "C06" {
			op.Op = "construct"
			// the transport delivers the serialised structure only after this many
			// further publications
			op.N = append(op.N, int64(r.PickInt(0, 0, 1, 1, 2, 3, 5)))
			if r.Chance(1, 3) {
				// the application looks at the value (every read-only accessor)
				// between constructing it and verifying / publishing it
				op.S = []string{"use-first"}
			}
		}
		op.Actor = fmt.Sprintf("pub%d", op.Shape.IdentSeed)
		if prop != "C06" && kind != "mls" && r.Chance(1, 3) {
			// this publisher runs the library: the message is what the library's own
			// signing constructor and serialiser produce for the same content
			op.S = append(op.S, "library-made")
		}
		s.Ops = append(s.Ops, op)
		if r.Intn(3) < faultRate {
			if r.Chance(1, 2) {
				// the floodfill has already seen (and verified) the honest original
				// when the tampered copy arrives
				s.Ops[len(s.Ops)-1].S = append(s.Ops[len(s.Ops)-1].S, "honest-first")
			}
			for k, nf := 0, r.PickInt(1, 1, 1, 2, 3); k < nf; k++ {
				f := engine.Fault{At: int64(i)}
				if r.Chance(1, 3) && kind != "rinfo" && kind != "leaseset" && kind != "offsig" {
					f.Kind = shapeFaults[r.Intn(len(shapeFaults))]
				} else {
					f.Kind = byteFaults[r.Intn(len(byteFaults))]
				}
				f.N = []int64{int64(r.Intn(1 << 20)), int64(r.Intn(1 << 20)), int64(r.Intn(1 << 20))}
				s.Faults = append(s.Faults, f)
			}
		}
	}
	return s
}

func (World) Execute(t *testing.T, s *engine.Script) *engine.Outcome {
	o := engine.NewOutcome()
	synctest.Test(t, func(t *testing.T) {
		if s.Property == "C06" {
			executeC06(s, o)
		} else {
			executeC05(s, o)
		}
	})
	return o
}

// ---------------------------------------------------------------- C05

type message struct {
	kind     string
	raw      []byte
	frame    *refmodel.Frame
	idSig    int
	idKey    []byte
	faults   []string
	replayed bool
	tag      int64
}

func applyShapeFault(sh *engine.Shape, f *engine.Fault) bool {
	switch f.Kind {
	case "offline_forgery":
		if sh.Kind == "offsig" {
			return false
		}
		mode := 1 + int(f.N[0])%2
		tt := []int{7, 7, 11, 8, 0}[int(f.N[1])%5]
		exp := 1 + uint64(f.N[2])
		if sh.Offline != nil && sh.Offline.Forge == 0 && (f.N[0]>>1)%2 == 0 {
			// the smallest step away from a genuine delegation: same expiry, same
			// transient key TYPE, but the adversary's key and an offline signature the
			// identity never made
			tt, exp = sh.Offline.Transient, sh.Offline.Expires
		}
		sh.Offline = &engine.OfflineShape{Transient: tt, Expires: exp, Seed: 900 + uint64(f.N[2])%4, Forge: mode}
		return true
	case "offline_transplant":
		if sh.Kind == "offsig" {
			return false
		}
		// a Byzantine publisher B puts its own genuine offline block into a
		// message carrying this identity and signs with its transient key
		b := 50 + uint64(f.N[0])%4
		tt := []int{7, 7, 11}[int(f.N[1])%3]
		sh.Offline = &engine.OfflineShape{Transient: tt, Expires: 1 + uint64(f.N[2]), Seed: 700 + b, Forge: 3, ForgeSeed: b}
		return true
	case "offline_extension":
		// the holder of a genuinely authorised transient key changes the expiry
		// of its own delegation and keeps the identity's signature
		if sh.Kind == "offsig" || sh.Offline == nil || sh.Offline.Forge != 0 {
			return false
		}
		was := sh.Offline.Expires
		now := []uint64{0xFFFFFFFF, was + 1, was + 86400*365, was ^ 1<<31, was - 1}[int(f.N[0])%5] & 0xFFFFFFFF
		if now == was {
			now = (was + 7) & 0xFFFFFFFF
		}
		sh.Offline.AltExpires, sh.Offline.Expires, sh.Offline.Forge = was, now, 4
		return true
	case "store_confusion":
		want := map[string]int{"ls2": 3, "mls": 7, "els": 5}[sh.Kind]
		if want == 0 {
			return false
		}
		p := []int{3, 5, 7, 1, 0xFF, -1}[int(f.N[0])%6]
		if p == want {
			p = -1
		}
		sh.Prefix = p
		return true
	}
	return false
}

// nextIsNot reports whether no field named *suffix starts at offset off.
func nextIsNot(fr *refmodel.Frame, off int, suffix string) bool {
	for _, fl := range fr.Fields {
		if fl.Start == off && strings.HasSuffix(fl.Name, suffix) {
			return false
		}
	}
	return true
}

func isShapeFault(k string) bool {
	return k == "offline_forgery" || k == "offline_transplant" || k == "store_confusion" || k == "offline_extension"
}

// applyByteFault tampers with m.raw; returns false if the fault does not
// apply to this message.
func applyByteFault(m *message, f *engine.Fault, recorded []*message) bool {
	fr := m.frame
	raw := m.raw
	switch f.Kind {
	case "bitflip":
		if len(fr.Fields) == 0 {
			return false
		}
		fl := fr.Fields[int(f.N[0])%len(fr.Fields)]
		if (f.N[2]>>3)%3 == 0 {
			// one flip in three goes to the small fixed header fields (dates, flags,
			// cost, counts, lengths): few bytes, much meaning
			var hdr []refmodel.Field
			for _, x := range fr.Fields {
				if x.Class == refmodel.ClsHeader || x.Class == refmodel.ClsCount || x.Class == refmodel.ClsLen {
					hdr = append(hdr, x)
				}
			}
			if len(hdr) > 0 {
				fl = hdr[int(f.N[0])%len(hdr)]
			}
		}
		if fl.End <= fl.Start || fl.End > len(raw) {
			return false
		}
		off := fl.Start + int(f.N[1])%(fl.End-fl.Start)
		raw[off] ^= 1 << (uint(f.N[2]) % 8)
		return true
	case "rewrite":
		if len(fr.Fields) == 0 {
			return false
		}
		fl := fr.Fields[int(f.N[0])%len(fr.Fields)]
		if fl.End <= fl.Start || fl.End > len(raw) {
			return false
		}
		off := fl.Start + int(f.N[1])%(fl.End-fl.Start)
		n := 1 + int(f.N[2])%8
		if off+n > len(raw) {
			n = len(raw) - off
		}
		copy(raw[off:off+n], refmodel.Expand(uint64(f.N[2]), "rewrite", n))
		return true
	case "mapping_slack":
		// bytes where a lenient parser skips them: junk shorter than the
		// parser's minimum pair inside a mapping's declared size
		var sizes []refmodel.Field
		for _, fl := range fr.Fields {
			if strings.HasSuffix(fl.Name, "opt_size") || strings.HasSuffix(fl.Name, "_props") {
				sizes = append(sizes, fl)
			}
		}
		if len(sizes) == 0 {
			return false
		}
		fl := sizes[int(f.N[0])%len(sizes)]
		if fl.Start+2 > len(raw) {
			return false
		}
		cur := int(binary.BigEndian.Uint16(raw[fl.Start : fl.Start+2]))
		junkLen := 1 + int(f.N[1])%5
		var junk []byte
		atStart := false
		switch int(f.N[2]) % 6 {
		case 0:
			junk = refmodel.Expand(uint64(f.N[2]), "junk", junkLen)
		case 1:
			junk = make([]byte, junkLen)
		case 2:
			junk = []byte{1, 'a', '=', 0, ';'}[:junkLen] // a pair the six-byte rule drops
		default:
			// a whole, well-formed pair the publisher never signed: with a
			// zero-length key, with a zero-length value, or an ordinary one; at
			// the end of the mapping or in front of its first pair
			v := refmodel.Expand(uint64(f.N[2]), "smuggled", 1+int(f.N[1])%40)
			switch int(f.N[2]) % 6 {
			case 3:
				junk = append([]byte{0, '=', byte(len(v))}, v...)
			case 4:
				junk = append(append([]byte{byte(len(v))}, v...), '=', 0)
			default:
				junk = append([]byte{2, 'z', 'z', '=', byte(len(v))}, v...)
			}
			junk = append(junk, ';')
			junkLen = len(junk)
			atStart = int(f.N[1])%2 == 1
		}
		at := fl.Start + 2 + cur
		if atStart {
			at = fl.Start + 2
		}
		if at > len(raw) || cur+junkLen > 0xFFFF {
			return false
		}
		out := append([]byte(nil), raw[:at]...)
		out = append(out, junk...)
		out = append(out, raw[at:]...)
		binary.BigEndian.PutUint16(out[fl.Start:fl.Start+2], uint16(cur+junkLen))
		m.raw = out
		// later fields moved: shift the field map for subsequent faults
		nf := *fr
		nf.Fields = append([]refmodel.Field(nil), fr.Fields...)
		for i := range nf.Fields {
			if nf.Fields[i].Start >= at {
				nf.Fields[i].Start += junkLen
				nf.Fields[i].End += junkLen
			}
		}
		if nf.SigStart >= at {
			nf.SigStart += junkLen
		}
		m.frame = &nf
		return true
	case "cert_slack":
		// excess certificate payload: the identity's certificate length is
		// raised by n and n bytes are inserted behind the certificate. A parser
		// that skips what it does not understand must still have it covered
		// by the signature.
		var lenF *refmodel.Field
		end := -1
		for i := range fr.Fields {
			fl := &fr.Fields[i]
			if fl.Name == "cert_len" && lenF == nil {
				lenF = fl
				end = fl.End
			}
			if fl.Name == "cert_payload" && lenF != nil && fl.Start == lenF.End {
				end = fl.End
			}
		}
		if lenF == nil || lenF.Start+2 > len(raw) || end > len(raw) {
			return false
		}
		cur := int(binary.BigEndian.Uint16(raw[lenF.Start : lenF.Start+2]))
		n := 1 + int(f.N[0])%8
		if cur+n > 0xFFFF {
			return false
		}
		var junk []byte
		switch int(f.N[1]) % 3 {
		case 0:
			junk = refmodel.Expand(uint64(f.N[2]), "certjunk", n)
		case 1:
			junk = make([]byte, n)
		default:
			junk = []byte{0, 7, 0, 4, 0, 7, 0, 4}[:n] // looks like key types
		}
		out := append([]byte(nil), raw[:end]...)
		out = append(out, junk...)
		out = append(out, raw[end:]...)
		binary.BigEndian.PutUint16(out[lenF.Start:lenF.Start+2], uint16(cur+n))
		m.raw = out
		nf := *fr
		nf.Fields = append([]refmodel.Field(nil), fr.Fields...)
		for i := range nf.Fields {
			if nf.Fields[i].Start >= end {
				nf.Fields[i].Start += n
				nf.Fields[i].End += n
			}
		}
		if nf.SigStart >= end {
			nf.SigStart += n
		}
		m.frame = &nf
		return true
	case "element_swap":
		// Two neighbouring elements of a list change places: option pairs inside
		// any mapping, leases, MetaLeaseSet entries, LeaseSet2 keys, router
		// addresses. Same length, same multiset of bytes, nothing malformed — but
		// not what was signed. A verifier that normalises the order before it
		// looks at the signature accepts it.
		type span struct{ a, b, c int } // [a,b) and [b,c) swap
		var cands []span
		add := func(bounds []int) {
			for i := 0; i+2 < len(bounds); i++ {
				if bounds[i+2] <= len(raw) && !bytes.Equal(raw[bounds[i]:bounds[i+1]], raw[bounds[i+1]:bounds[i+2]]) {
					cands = append(cands, span{bounds[i], bounds[i+1], bounds[i+2]})
				}
			}
		}
		// pairs inside mapping bodies
		for _, fl := range fr.Fields {
			if fl.Class != refmodel.ClsOptions && fl.Class != refmodel.ClsEntryProps {
				continue
			}
			body := fl
			start := body.Start
			if strings.HasSuffix(fl.Name, "_props") || fl.Class == refmodel.ClsEntryProps {
				start += 2 // the entry properties field holds size + body
			} else if !strings.HasSuffix(fl.Name, "opt_body") {
				continue
			}
			if body.End > len(raw) || start >= body.End {
				continue
			}
			bounds := []int{start}
			p := start
			for p < body.End {
				kl := int(raw[p])
				q := p + 1 + kl + 1
				if q >= body.End {
					break
				}
				vl := int(raw[q])
				e := q + 1 + vl + 1
				if e > body.End {
					break
				}
				bounds = append(bounds, e)
				p = e
			}
			add(bounds)
		}
		// whole elements, grouped by the number in their field name
		group := func(pfx string) {
			starts := map[int]int{}
			ends := map[int]int{}
			for _, fl := range fr.Fields {
				if !strings.HasPrefix(fl.Name, pfx) {
					continue
				}
				num, rest := 0, fl.Name[len(pfx):]
				k := 0
				for k < len(rest) && rest[k] >= '0' && rest[k] <= '9' {
					num = num*10 + int(rest[k]-'0')
					k++
				}
				if k == 0 {
					continue
				}
				if _, ok := starts[num]; !ok || fl.Start < starts[num] {
					starts[num] = fl.Start
				}
				if fl.End > ends[num] {
					ends[num] = fl.End
				}
			}
			var bounds []int
			for i := 0; ; i++ {
				st, ok := starts[i]
				if !ok {
					break
				}
				if i == 0 {
					bounds = append(bounds, st)
				} else if st != bounds[len(bounds)-1] {
					return // not contiguous: leave it
				}
				bounds = append(bounds, ends[i])
			}
			add(bounds)
		}
		group("lease")
		group("entry")
		group("addr")
		for i := 0; i < 16; i++ { // LeaseSet2 keys: keytypeN keylenN keyN
			var b []int
			for j := i; j <= i+2; j++ {
				for _, fl := range fr.Fields {
					if fl.Name == fmt.Sprintf("keytype%d", j) {
						b = append(b, fl.Start)
					}
				}
			}
			if len(b) == 3 {
				add(b)
			}
		}
		if len(cands) == 0 {
			return false
		}
		sp := cands[int(f.N[0])%len(cands)]
		swapped := append(append([]byte(nil), raw[sp.b:sp.c]...), raw[sp.a:sp.b]...)
		copy(raw[sp.a:sp.c], swapped)
		return true
	case "element_smuggle":
		// A count field is raised by one and one well-framed element is inserted
		// at an element boundary: a MetaLeaseSet entry with a type no parser
		// knows, a LeaseSet2 key of an unknown type, a lease, a router address
		// with an odd style. Whatever the parser makes of it, the signature
		// must cover it.
		type list struct {
			count string // name of the count field
			pfx   string // prefix of the element fields
		}
		var l list
		var elem []byte
		switch m.kind {
		case "mls":
			l = list{"num", "entry"}
			e := refmodel.Expand(uint64(f.N[1]), "smuggled-entry", 38)
			e[32] = []byte{0, 2, 4, 6, 7, 255}[int(f.N[2])%6]
			elem = append(e, 0, 0)
		case "ls2":
			if int(f.N[2])%2 == 0 {
				l = list{"numk", "key"}
				elem = append([]byte{0xFF, 0xFF, 0, 5}, refmodel.Expand(uint64(f.N[1]), "smuggled-key", 5)...)
			} else {
				l = list{"num", "lease"}
				elem = refmodel.Expand(uint64(f.N[1]), "smuggled-lease", 40)
			}
		case "leaseset":
			l = list{"ls_count", "lease"}
			elem = refmodel.Expand(uint64(f.N[1]), "smuggled-lease", 44)
		case "rinfo":
			l = list{"addr_count", "addr"}
			elem = append([]byte{9, 0, 0, 0, 0, 0, 0, 0, 0, 1, '?'}, 0, 0)
		default:
			return false
		}
		var cf *refmodel.Field
		var bounds []int
		for i := range fr.Fields {
			fl := &fr.Fields[i]
			if fl.Name == l.count {
				cf = fl
				bounds = append(bounds, fl.End)
			}
			if cf != nil && strings.HasPrefix(fl.Name, l.pfx) && !strings.HasPrefix(fl.Name, "keytype") && !strings.HasPrefix(fl.Name, "keylen") {
				// element fields follow the count; remember where each element ends
				if m.kind == "ls2" && l.pfx == "key" && !strings.HasPrefix(fl.Name, "key") {
					continue
				}
				bounds = append(bounds, fl.End)
			}
		}
		if cf == nil || cf.Start >= len(raw) || raw[cf.Start] == 255 {
			return false
		}
		// only positions that are element boundaries: after the count, or after
		// a complete element (for MetaLeaseSet: after its properties mapping)
		var at []int
		for _, b := range bounds {
			ok := b == cf.End
			for i := range fr.Fields {
				fl := &fr.Fields[i]
				if fl.End == b && strings.HasPrefix(fl.Name, l.pfx) {
					switch {
					case m.kind == "mls":
						ok = ok || strings.HasSuffix(fl.Name, "_props")
					case m.kind == "rinfo":
						ok = ok || strings.HasSuffix(fl.Name, "opt_body") || (strings.HasSuffix(fl.Name, "opt_size") && nextIsNot(fr, fl.End, "opt_body"))
					default:
						ok = true
					}
				}
			}
			if ok && b <= len(raw) {
				at = append(at, b)
			}
		}
		if len(at) == 0 {
			return false
		}
		pos := at[int(f.N[0])%len(at)]
		raw[cf.Start]++
		out := append([]byte(nil), raw[:pos]...)
		out = append(out, elem...)
		out = append(out, raw[pos:]...)
		m.raw = out
		nf := *fr
		nf.Fields = append([]refmodel.Field(nil), fr.Fields...)
		for i := range nf.Fields {
			if nf.Fields[i].Start >= pos {
				nf.Fields[i].Start += len(elem)
				nf.Fields[i].End += len(elem)
			}
		}
		if nf.SigStart >= pos {
			nf.SigStart += len(elem)
		}
		m.frame = &nf
		return true
	case "type_confusion":
		// a signature-type code is replaced by another code whose keys and
		// signatures have the same sizes (7 <-> 11 <-> 8): in the identity's key
		// certificate, in the EncryptedLeaseSet sig_type field, or in the
		// offline block's transient type. Nothing shifts; only the meaning does.
		var spots [][2]int // offset of a 2-byte type code
		for _, fl := range fr.Fields {
			switch {
			case fl.Name == "cert_payload" && fl.End-fl.Start >= 4 && fl.Start > 0 && raw[fl.Start-3] == 5:
				spots = append(spots, [2]int{fl.Start, 0})
			case fl.Name == "sigtype" && m.kind == "els":
				spots = append(spots, [2]int{fl.Start, 0})
			case fl.Name == "off_sigtype":
				spots = append(spots, [2]int{fl.Start, 0})
			}
		}
		if len(spots) == 0 {
			return false
		}
		at := spots[int(f.N[0])%len(spots)][0]
		if at+2 > len(raw) {
			return false
		}
		cur := int(binary.BigEndian.Uint16(raw[at : at+2]))
		var alt []int
		switch cur {
		case 7:
			alt = []int{11, 8}
		case 11:
			alt = []int{7, 8}
		case 8:
			alt = []int{7, 11}
		case 1:
			alt = []int{7} // P-256: same 64-byte signature, other key size (shifts the key offset only)
		default:
			return false
		}
		binary.BigEndian.PutUint16(raw[at:at+2], uint16(alt[int(f.N[1])%len(alt)]))
		return true
	case "flag_downgrade":
		// the OFFLINE_KEYS flag is cleared and the offline block cut out: the
		// body is still signed by the transient key only
		if fr.OffEnd <= fr.OffStart || fr.OffEnd > len(raw) {
			return false
		}
		var flagsAt = -1
		for _, fl := range fr.Fields {
			if fl.Name == "flags" {
				flagsAt = fl.Start
			}
		}
		if flagsAt < 0 || flagsAt+2 > len(raw) {
			return false
		}
		raw[flagsAt+1] &^= 1
		n := fr.OffEnd - fr.OffStart
		out := append([]byte(nil), raw[:fr.OffStart]...)
		out = append(out, raw[fr.OffEnd:]...)
		m.raw = out
		nf := *fr
		nf.Fields = nil
		for _, fl := range fr.Fields {
			switch {
			case fl.Start >= fr.OffEnd:
				fl.Start -= n
				fl.End -= n
				nf.Fields = append(nf.Fields, fl)
			case fl.End <= fr.OffStart:
				nf.Fields = append(nf.Fields, fl)
			}
		}
		if nf.SigStart >= fr.OffEnd {
			nf.SigStart -= n
		}
		nf.OffStart, nf.OffEnd = 0, 0
		m.frame = &nf
		return true
	case "peer_slack":
		// RouterInfo only: the (unused, always zero) peer count is raised to n
		// and n 32-byte hashes are inserted behind it. The specification has
		// this field; a parser that skips the hashes must still have them
		// covered by the signature.
		if m.kind != "rinfo" {
			return false
		}
		for _, fl := range fr.Fields {
			if fl.Name != "peer_size" || fl.End > len(raw) {
				continue
			}
			n := 1 + int(f.N[0])%3
			raw[fl.Start] = byte(n)
			junk := refmodel.Expand(uint64(f.N[1]), "peers", 32*n)
			out := append([]byte(nil), raw[:fl.End]...)
			out = append(out, junk...)
			out = append(out, raw[fl.End:]...)
			m.raw = out
			nf := *fr
			nf.Fields = append([]refmodel.Field(nil), fr.Fields...)
			for i := range nf.Fields {
				if nf.Fields[i].Start >= fl.End {
					nf.Fields[i].Start += len(junk)
					nf.Fields[i].End += len(junk)
				}
			}
			if nf.SigStart >= fl.End {
				nf.SigStart += len(junk)
			}
			m.frame = &nf
			return true
		}
		return false
	case "after_sig":
		m.raw = append(raw, refmodel.Expand(uint64(f.N[0]), "after", 1+int(f.N[1])%16)...)
		return true
	case "sig_swap":
		if fr.SigStart <= 0 || fr.SigStart >= len(raw) {
			return false
		}
		sig := raw[fr.SigStart:]
		if m.kind == "offsig" {
			return false
		}
		switch int(f.N[0]) % 3 {
		case 0:
			copy(sig, refmodel.Expand(uint64(f.N[1]), "sigswap", len(sig)))
		case 1:
			for i := range sig {
				sig[i] = 0
			}
		default:
			if len(recorded) == 0 {
				return false
			}
			o := recorded[int(f.N[1])%len(recorded)]
			if o.frame.SigStart <= 0 || len(o.raw)-o.frame.SigStart < 1 {
				return false
			}
			copy(sig, o.raw[o.frame.SigStart:])
		}
		return true
	case "key_subst":
		other := refmodel.NewSignKey(30+uint64(f.N[0])%8, m.idSig)
		if m.kind == "els" {
			copy(raw[2:2+len(other.Pub)], other.Pub)
			return true
		}
		if m.kind == "offsig" || len(raw) < 384 || len(other.Pub) > 128 {
			return false
		}
		copy(raw[384-len(other.Pub):384], other.Pub)
		return true
	case "revocation_key_forgery":
		// LeaseSet only: the adversary puts a key of its own into the
		// revocation-key field and signs the body with it
		if m.kind != "leaseset" || fr.SigStart <= 0 || fr.SigStart > len(raw) {
			return false
		}
		adv := refmodel.NewSignKey(40+uint64(f.N[0])%4, m.idSig)
		if !adv.CanSign() {
			return false
		}
		for _, fl := range fr.Fields {
			if fl.Name == "ls_signing_key" && fl.End-fl.Start == len(adv.Pub) {
				copy(raw[fl.Start:fl.End], adv.Pub)
				sig := adv.Sign(raw[:fr.SigStart], uint64(f.N[1]))
				if len(sig) == len(raw)-fr.SigStart {
					copy(raw[fr.SigStart:], sig)
					return true
				}
			}
		}
		return false
	case "replay":
		if len(recorded) == 0 {
			return false
		}
		o := recorded[int(f.N[0])%len(recorded)]
		*m = *o
		m.raw = append([]byte(nil), o.raw...)
		// the replayed message is judged on its own bytes: it keeps the
		// fault list of the recorded message; "replay" itself is only counted
		m.faults = append([]string(nil), o.faults...)
		m.replayed = true
		return true
	}
	return false
}

// deliver builds, tampers, delivers and judges one message with the given
// subset of its faults. It returns (library accepted, reference verdict,
// parsed, names of the faults that applied).
func deliver(o *engine.Outcome, op *engine.Op, faults []*engine.Fault, recorded []*message, count bool) (*message, bool, refmodel.RawVerdict, bool) {
	shb := *op.Shape
	sh := &shb
	if op.Shape.Offline != nil {
		oc := *op.Shape.Offline
		sh.Offline = &oc
	}
	m := &message{kind: sh.Kind}
	for _, f := range faults {
		if isShapeFault(f.Kind) && applyShapeFault(sh, f) {
			m.faults = append(m.faults, f.Kind)
		}
	}
	fr, err := refmodel.Build(sh)
	if err != nil {
		return nil, false, refmodel.RawVerdict{}, false
	}
	m.frame, m.raw = fr, append([]byte(nil), fr.Bytes...)
	if has(op.S, "library-made") && len(m.faults) == 0 {
		// same content, but signed and serialised by the library; the reference
		// frame serves as the field map when the layout is the same
		var b []byte
		var ok bool
		if !o.Guard("construct "+sh.Kind, func() { _, b, ok = ConstructWithBytes(sh) }) && ok && len(b) == len(fr.Bytes) {
			m.raw = append([]byte(nil), b...)
			m.faults = append(m.faults, "library-made")
		}
	}
	if fr.Ident != nil {
		m.idSig, m.idKey = fr.Ident.Sig, fr.Ident.Key.Pub
	}
	if sh.Kind == "offsig" {
		k := refmodel.NewSignKey(sh.IdentSeed, sh.Sig)
		m.idSig, m.idKey = sh.Sig, k.Pub
	}
	for _, f := range faults {
		if !isShapeFault(f.Kind) && applyByteFault(m, f, recorded) {
			if f.Kind != "replay" {
				m.faults = append(m.faults, f.Kind)
			}
		}
	}
	var accepted, parsed bool
	var consumed int
	if o.Guard("floodfill "+m.kind, func() {
		accepted, consumed, parsed, _ = floodfill(m.kind, append([]byte(nil), m.raw...), m.idSig, m.idKey)
	}) {
		accepted = false
	}
	var ref refmodel.RawVerdict
	if m.kind == "offsig" {
		end := consumed
		if !parsed {
			end = len(m.raw)
		}
		ref = refmodel.VerifyOfflineBlock(m.raw[:end], m.idSig, m.idKey)
	} else {
		c := consumed
		if !parsed {
			c = len(m.raw) // nothing was consumed; judge the whole delivery (only matters for the probes)
		}
		ref = refmodel.VerifyDelivered(m.kind, m.raw, c)
	}
	if count {
		if m.replayed {
			o.Fault("replay")
		}
		for _, fk := range m.faults {
			o.Fault(fk)
			if parsed {
				o.Probe("parsed_after:" + fk)
			}
			if accepted {
				o.Probe("accepted_by_library_after:" + fk)
			}
			if ref.OK {
				o.Probe("accepted_by_reference_after:" + fk)
			}
		}
	}
	return m, accepted, ref, parsed
}

func reason(v refmodel.RawVerdict) string {
	switch {
	case strings.Contains(v.Why, "transient key is not signed"):
		return "offline-key-not-authorised-by-identity"
	case strings.Contains(v.Why, "does not verify over"):
		return "signature-invalid-over-delivered-bytes"
	default:
		return "malformed-for-reference"
	}
}

func executeC05(s *engine.Script, o *engine.Outcome) {
	byTag := map[int64][]*engine.Fault{}
	for i := range s.Faults {
		f := &s.Faults[i]
		if len(f.N) < 3 {
			continue
		}
		byTag[f.At] = append(byTag[f.At], f)
	}
	var recorded, rejected []*message
	defer func() { redeliver(s, o, rejected) }()
	for i := range s.Ops {
		op := &s.Ops[i]
		if op.Op != "publish" || op.Shape == nil || len(op.N) == 0 {
			continue
		}
		faults := byTag[op.N[0]]
		if len(faults) > 0 && has(op.S, "honest-first") {
			deliver(o, op, nil, recorded, false)
			o.Fault("honest-original-verified-first")
		}
		m, accepted, ref, parsed := deliver(o, op, faults, recorded, true)
		if m == nil {
			continue
		}
		sigLabel := fmt.Sprintf("sig%d", ref.SigType)
		if ref.Offline {
			sigLabel += fmt.Sprintf("+transient%d", ref.Transient)
		}
		if len(m.faults) == 0 || len(m.faults) == 1 && m.faults[0] == "library-made" {
			o.Probe("honest_messages")
			if len(m.faults) == 1 {
				o.Fault("message-made-by-the-library")
			}
			if accepted {
				o.Probe("honest_accepted_by_library")
				o.Probe("honest_accepted_by_library:" + m.kind + ":" + sigLabel)
			}
			if ref.OK {
				o.Probe("honest_accepted_by_reference")
			} else {
				o.Probe("honest_rejected_by_reference:" + m.kind)
			}
		} else {
			o.Probe("tampered_messages")
		}
		if ref.Offline {
			o.Probe("offline_block_present")
		}
		if accepted && !ref.OK {
			// keep only the faults that are needed for this acceptance
			need := append([]*engine.Fault(nil), faults...)
			for k := 0; k < len(need); {
				try := append(append([]*engine.Fault(nil), need[:k]...), need[k+1:]...)
				_, a2, r2, _ := deliver(o, op, try, recorded, false)
				if a2 && !r2.OK && reason(r2) == reason(ref) {
					need = try
				} else {
					k++
				}
			}
			mm, _, r3, _ := deliver(o, op, need, recorded, false)
			names := append([]string(nil), mm.faults...)
			sort.Strings(names)
			fs := strings.Join(uniq(names), "+")
			if fs == "" {
				fs = "no-fault"
			}
			o.Violate("C05/library-accepts-reference-rejects/"+reason(ref)+"/"+m.kind+"/"+fs,
				"message %d (%s, identity sig type %d, faults %v): Verify succeeded but %s", op.N[0], m.kind, m.idSig, mm.faults, r3.Why)
			o.Notes[fmt.Sprintf("msg%d_delivered_hex", op.N[0])] = fmt.Sprintf("%x", mm.raw)
		}
		o.Tag("(structure, signing types, faults applied, parsed, accepted)", fmt.Sprintf("%s/%s/%v/%v/%v", m.kind, sigLabel, uniq(append([]string(nil), m.faults...)), parsed, accepted))
		o.FP.Step("msg", i, m.kind, len(m.raw), parsed, accepted, ref.OK)
		recorded = append(recorded, m)
		if !accepted && !ref.OK && len(m.faults) > 0 {
			m.tag = op.N[0]
			rejected = append(rejected, m)
		}
	}
}

// redeliver: the decision about a store is a function of its bytes, not of
// what else the floodfill has seen. Every message that the library and the
// reference both rejected is delivered once more at the end of the run, after
// a pause on the simulated clock and after the floodfill has verified
// Config["traffic"] other honest stores of the same kinds; a message that is
// accepted now is a forged structure that the library accepts.
func redeliver(s *engine.Script, o *engine.Outcome, rejected []*message) {
	gap, ok := s.Config["redeliver_after_s"]
	if !ok || len(rejected) == 0 {
		return
	}
	if gap > 0 {
		time.Sleep(time.Duration(gap) * time.Second)
		o.SimSeconds += float64(gap)
	}
	if n := s.Config["traffic"]; n > 0 {
		r := engine.NewRNG(uint64(s.Config["traffic_seed"]))
		var ks []string
		for _, m := range rejected {
			if !has(ks, m.kind) {
				ks = append(ks, m.kind)
			}
		}
		if len(ks) > 2 {
			ks = ks[:2]
		}
		if n > 2000 {
			n = 2000
		}
		for _, kind := range ks {
			good := 0
			for i := int64(0); i < n; i++ {
				sh := genShape(r.Fork(), kind, false)
				if sh.N > 3 {
					sh.N = 3
				}
				fr, err := refmodel.Build(sh)
				if err != nil {
					continue
				}
				idSig, idKey := 0, []byte(nil)
				if fr.Ident != nil {
					idSig, idKey = fr.Ident.Sig, fr.Ident.Key.Pub
				}
				if kind == "offsig" {
					idSig, idKey = sh.Sig, refmodel.NewSignKey(sh.IdentSeed, sh.Sig).Pub
				}
				var acc bool
				o.Guard("floodfill traffic "+kind, func() {
					acc, _, _, _ = floodfill(kind, append([]byte(nil), fr.Bytes...), idSig, idKey)
				})
				if acc {
					good++
				}
			}
			o.Fault("other-honest-stores-verified-before-redelivery")
			o.Probe(fmt.Sprintf("traffic_accepted:%s:%d-of-%d", kind, good/100*100, n))
		}
	}
	for _, m := range rejected {
		var acc bool
		o.Guard("floodfill again "+m.kind, func() {
			acc, _, _, _ = floodfill(m.kind, append([]byte(nil), m.raw...), m.idSig, m.idKey)
		})
		o.Fault("redelivery-of-a-rejected-message")
		o.FP.Step("again", m.tag, acc)
		if acc {
			names := append([]string(nil), m.faults...)
			sort.Strings(names)
			o.Violate("C05/library-accepts-on-a-later-delivery-what-it-and-the-reference-rejected/"+m.kind,
				"message %d (%s, faults %v): rejected when first delivered, Verify succeeded when the same bytes were delivered again %ds and %d other verified stores later", m.tag, m.kind, uniq(names), gap, s.Config["traffic"])
			o.Notes[fmt.Sprintf("msg%d_delivered_hex", m.tag)] = fmt.Sprintf("%x", m.raw)
		}
	}
}

func has(l []string, x string) bool {
	for _, y := range l {
		if y == x {
			return true
		}
	}
	return false
}

func uniq(s []string) []string {
	var out []string
	for i, x := range s {
		if i == 0 || x != s[i-1] {
			out = append(out, x)
		}
	}
	return out
}

// ---------------------------------------------------------------- C06

func c06Label(sh *engine.Shape) string {
	// the label names the key that signs the body and, with an offline block,
	// the key that authorises the transient key
	if sh.Offline != nil {
		return fmt.Sprintf("%s/body-key-sig%d/offline-authorised-by-sig%d", sh.Kind, sh.Offline.Transient, sh.Sig)
	}
	l := fmt.Sprintf("%s/body-key-sig%d", sh.Kind, sh.Sig)
	if sh.Cert == "null" {
		l += "-nullcert"
	}
	return l
}

// c06Check runs the C06 obligations for one shape; it returns "" or the
// failed obligation and a detail.
func c06Check(o *engine.Outcome, sh *engine.Shape, count bool, ef *engine.Fault, useFirst bool, wire *inflight) (string, string) {
	var c *constructed
	var val any
	var err error
	saved := rand.Reader
	var fr *seams.FaultyReader
	if ef != nil && len(ef.N) > 0 {
		fr = &seams.FaultyReader{Under: saved, Kind: ef.Kind, Param: int(ef.N[0])}
		rand.Reader = fr
	}
	panicked := o.Guard("construct "+sh.Kind, func() { c, val, err = constructWithValue(sh) })
	rand.Reader = saved
	if fr != nil && fr.Fired && count {
		o.Fault(fr.Kind)
	}
	if panicked {
		return "", ""
	}
	if err != nil || c == nil {
		return "", ""
	}
	if c.skipped != "" {
		if count {
			o.Probe("constructor_refused:" + sh.Kind)
		}
		return "", ""
	}
	if count {
		o.Probe("constructed:" + c06Label(sh))
	}
	if useFirst && val != nil {
		// read-only use of the value must not disturb what was signed
		if count {
			o.Fault("accessors-called-between-signing-and-verifying")
		}
		o.Guard("use constructed "+sh.Kind, func() {
			uo := obs.Options{Deny: useDeny, Args: consume.SynthArgs, ArgMethod: func(n string) bool { return consume.ReadOnlyName(n) && n != "Equals" && n != "Equal" }}
			_ = obs.Observe(val, &uo)
			_ = consume.Consumers(val)
		})
	}
	var verr error
	if o.Guard("verify constructed", func() { verr = c.verify() }) {
		return "", ""
	}
	if verr != nil {
		return "constructed-value-does-not-verify", short(verr)
	}
	var b []byte
	if o.Guard("serialise constructed", func() { b, err = c.bytes() }) || err != nil {
		return "constructed-value-does-not-serialise", fmt.Sprint(err)
	}
	// order of calls must not matter: serialising again gives the same bytes,
	// and the value still verifies after it has been serialised
	var b2 []byte
	var err2, verr2 error
	if !o.Guard("serialise/verify again", func() { b2, err2 = c.bytes(); verr2 = c.verify() }) {
		if err2 != nil || !bytes.Equal(b, b2) {
			return "second-serialisation-differs", fmt.Sprintf("%d vs %d bytes, err %v", len(b), len(b2), err2)
		}
		if verr2 != nil {
			return "constructed-value-does-not-verify-after-serialising", short(verr2)
		}
	}
	var accepted, parsed bool
	var consumed int
	o.Guard("floodfill", func() {
		accepted, consumed, parsed, _ = floodfill(sh.Kind, append([]byte(nil), b...), c.idSig, c.idKey)
	})
	if !parsed {
		if sh.Kind == "ls2" && len(b) < 499 {
			// a specific corner (repaired by /repo 6a548f7): the parser refused
			// anything shorter than its fixed minimum size, which a DSA destination
			// with one lease and a very short encryption key of an unknown type
			// undercuts; the qualifier stays so that a regression keeps its name
			return "own-serialisation-rejected-by-parser/shorter-than-the-parsers-fixed-minimum-of-499-bytes", fmt.Sprintf("%d bytes", len(b))
		}
		return "own-serialisation-rejected-by-parser", fmt.Sprintf("%d bytes", len(b))
	}
	if sh.Kind != "leaseset" && consumed != len(b) {
		return "own-serialisation-not-consumed-completely", fmt.Sprintf("consumed %d of %d", consumed, len(b))
	}
	if !accepted {
		return "does-not-verify-after-the-wire", fmt.Sprintf("%d bytes", len(b))
	}
	var ref refmodel.RawVerdict
	if sh.Kind == "offsig" {
		ref = refmodel.VerifyOfflineBlock(b, c.idSig, c.idKey)
	} else {
		ref = refmodel.VerifyDelivered(sh.Kind, b, consumed)
	}
	if !ref.OK {
		// an independent verifier disagreeing with the library about what the
		// library itself signed and verifies is a question of agreement with the
		// specification (C02), not of C06, which asks the library's own Verify
		if count {
			o.Probe("reference_rejects_what_the_library_signed_and_verifies:" + sh.Kind)
		}
	}
	// delivered followed by the next frame: must still verify
	var acc2 bool
	o.Guard("floodfill+trailing", func() {
		acc2, _, _, _ = floodfill(sh.Kind, append(append([]byte(nil), b...), refmodel.Expand(sh.Seed, "next", 40)...), c.idSig, c.idKey)
	})
	if !acc2 {
		return "does-not-verify-when-followed-by-another-frame", ""
	}
	if count {
		o.Probe("stored_by_floodfill:" + sh.Kind)
	}
	if wire != nil {
		// the transport keeps the very slice Bytes() handed out
		*wire = inflight{b: b, snap: append([]byte(nil), b...), kind: sh.Kind, idSig: c.idSig, idKey: c.idKey, label: c06Label(sh), held: c}
	}
	return "", ""
}

// inflight is a serialised structure on its way: published (verified, handed
// to the transport) but delivered only after the publisher has gone on to
// construct and serialise other structures.
type inflight struct {
	b, snap   []byte
	kind      string
	idSig     int
	idKey     []byte
	label     string
	op        int
	deliverAt int
	held      *constructed // the publisher keeps the value too
}

func deliverHeld(o *engine.Outcome, p *inflight, now int) {
	o.Fault("delivery-delayed-past-later-publications")
	changed := !bytes.Equal(p.b, p.snap)
	var accepted, parsed bool
	if o.Guard("floodfill (delayed)", func() { accepted, _, parsed, _ = floodfill(p.kind, append([]byte(nil), p.b...), p.idSig, p.idKey) }) {
		return
	}
	switch {
	case !parsed || !accepted:
		o.Violate("C06/serialisation-held-by-the-transport-no-longer-verifies/"+p.label, "op %d %s: the bytes Bytes() returned verified when published; delivered %d operations later they do not (parsed=%v accepted=%v, bytes changed meanwhile=%v)", p.op, p.kind, now-p.op, parsed, accepted, changed)
	case changed:
		o.Violate("C06/serialisation-changed-after-it-was-handed-out/"+p.label, "op %d %s: the slice Bytes() returned was rewritten while the publisher constructed other structures (it still parses and verifies, as something else)", p.op, p.kind)
	}
	o.FP.Step("delayed-delivery", p.op, parsed, accepted, changed)
	if p.held == nil || !parsed || !accepted {
		return
	}
	// the publisher still holds the value it constructed: it verified then, so it
	// verifies now, and publishing it again sends what was signed
	var verr, berr error
	var b2 []byte
	if o.Guard("verify/serialise held value", func() { verr = p.held.verify(); b2, berr = p.held.bytes() }) {
		return
	}
	o.FP.Step("held-value", p.op, verr == nil, berr == nil, bytes.Equal(b2, p.snap))
	switch {
	case verr != nil:
		o.Violate("C06/constructed-value-no-longer-verifies-after-later-constructions/"+p.label, "op %d %s: the value verified when it was constructed; %d operations later Verify on the same value fails: %s", p.op, p.kind, now-p.op, short(verr))
	case berr != nil || !bytes.Equal(b2, p.snap):
		var acc2 bool
		o.Guard("floodfill (republished)", func() { acc2, _, _, _ = floodfill(p.kind, append([]byte(nil), b2...), p.idSig, p.idKey) })
		if berr != nil || !acc2 {
			o.Violate("C06/constructed-value-serialised-after-later-constructions-does-not-verify/"+p.label, "op %d %s: serialised again %d operations later the value gives other bytes (err %v) which do not parse and verify", p.op, p.kind, now-p.op, berr)
		} else {
			o.Probe("held_value_serialises_differently_but_verifies:" + p.kind)
		}
	}
}

// useDeny: methods that are not read-only uses of a constructed value.
var useDeny = map[string]bool{".Sign": true, ".AddAddress": true, ".AddLease": true, ".SetOptions": true}

func executeC06(s *engine.Script, o *engine.Outcome) {
	var held []*inflight
	defer func() {
		for _, p := range held {
			deliverHeld(o, p, len(s.Ops))
		}
	}()
	for i := range s.Ops {
		op := &s.Ops[i]
		if op.Op != "construct" || op.Shape == nil {
			continue
		}
		keep := held[:0]
		for _, p := range held {
			if p.deliverAt <= i {
				deliverHeld(o, p, i)
			} else {
				keep = append(keep, p)
			}
		}
		held = keep
		sh := op.Shape
		o.NonTrivial = true
		var ef *engine.Fault
		for k := range s.Faults {
			if s.Faults[k].At == int64(i) && strings.HasPrefix(s.Faults[k].Kind, "entropy_") {
				ef = &s.Faults[k]
			}
		}
		if len(op.N) > 0 {
			for k := range s.Faults {
				if s.Faults[k].At == op.N[0] && strings.HasPrefix(s.Faults[k].Kind, "entropy_") {
					ef = &s.Faults[k]
				}
			}
		}
		useFirst := len(op.S) > 0 && op.S[0] == "use-first"
		var wire inflight
		fail, detail := c06Check(o, sh, true, ef, useFirst, &wire)
		if fail == "" && wire.b != nil && len(op.N) > 1 && op.N[1] > 0 {
			wire.op, wire.deliverAt = i, i+int(op.N[1])
			w := wire
			held = append(held, &w)
		}
		if fail != "" {
			feat := c06Label(sh)
			if useFirst {
				if f2, _ := c06Check(o, sh, false, ef, false, nil); f2 != fail {
					feat += "/only-after-read-only-accessors-were-called"
				}
			}
			// is the content (options / addresses) needed for the failure?
			if len(sh.Opts) > 0 || len(sh.Sub) > 0 {
				plain := *sh
				plain.Opts, plain.Sub = nil, nil
				if f2, _ := c06Check(o, &plain, false, ef, useFirst, nil); f2 != fail {
					feat += "/needs-options"
					if hasShortPair(sh) {
						feat += "-with-a-pair-shorter-than-6-bytes"
					}
				}
			}
			o.Violate("C06/"+fail+"/"+feat, "op %d %s: %s (shape %s)", i, sh.Kind, detail, describe(sh))
		}
		o.Tag("(constructor, key types, has options, has offline block)", fmt.Sprintf("%s/%v/%v", c06Label(sh), len(sh.Opts) > 0, sh.Offline != nil))
		o.FP.Step("construct", i, sh.Kind, fail)
	}
}

func hasShortPair(sh *engine.Shape) bool {
	chk := func(o [][2]string) bool {
		for _, kv := range o {
			if len(kv[0])+len(kv[1])+4 < 6 {
				return true
			}
		}
		return false
	}
	if chk(sh.Opts) {
		return true
	}
	for i := range sh.Sub {
		if chk(sh.Sub[i].Opts) {
			return true
		}
	}
	return false
}

func describe(sh *engine.Shape) string {
	return fmt.Sprintf("sig=%d crypto=%d cert=%s n=%d opts=%q offline=%v addrs=%d", sh.Sig, sh.Crypto, sh.Cert, sh.N, sh.Opts, sh.Offline != nil, len(sh.Sub))
}
