// Package clock is the C15 world: a table of expiring entries evaluated by
// nodes that boot at scripted instants of a simulated clock.
package clock

import (
	"bytes"
	"encoding/binary"
	"fmt"
	"math/bits"
	"testing"
	"testing/synctest"
	"time"

	"github.com/go-i2p/common/data"
	"github.com/go-i2p/common/encrypted_leaseset"
	"github.com/go-i2p/common/lease"
	"github.com/go-i2p/common/lease_set"
	"github.com/go-i2p/common/lease_set2"
	"github.com/go-i2p/common/meta_leaseset"
	"github.com/go-i2p/common/offline_signature"
	"github.com/go-i2p/common/router_address"
	"github.com/go-i2p/common/router_info"

	"i2psim.local/sim/engine"
	"i2psim.local/sim/refmodel"
)

type World struct{}

func (World) Name() string { return "clock" }

const (
	day        = int64(86400)
	bubbleBase = int64(946684800)           // 2000-01-01T00:00:00Z, where every synctest bubble starts
	maxT       = int64(9223372036) - 10*day // the bubble clock is int64 ns since 1970: it stops at 2262-04-11
	y2038      = int64(1<<31 - 1)
	y2106      = int64(1<<32 - 1)
)

var secEdges = []uint64{0, 1, 2, 1<<31 - 2, 1<<31 - 1, 1 << 31, 1<<31 + 1, 1<<32 - 2, 1<<32 - 1,
	946684800, 946684800 + 86400, 946684800 + 86401, 1790000000, 1<<32 - 65536, 1<<32 - 65535, 1<<32 - 65534, 1<<32 - 661}
var offEdges = []uint64{0, 1, 2, 659, 660, 661, 32767, 32768, 65534, 65535}

func pickSec(r *engine.RNG) uint64 {
	switch r.Intn(10) {
	case 0, 1, 2:
		return secEdges[r.Intn(len(secEdges))]
	case 3, 4:
		return uint64(bubbleBase) + uint64(r.Intn(int(106*365*day))) // 2000..2106
	case 5:
		return uint64(r.Intn(1 << 31))
	default:
		return r.Uint64() & 0xFFFFFFFF
	}
}

func pickOff(r *engine.RNG) uint64 {
	if r.Chance(1, 2) {
		return offEdges[r.Intn(len(offEdges))]
	}
	return r.Uint64() & 0xFFFF
}

func pickMillis(r *engine.RNG) uint64 {
	switch r.Intn(10) {
	case 0:
		return r.PickU64(0, 1, 999, 1000, 1001, 1<<53-1, 1<<53, 1<<53+1, 1<<63-1, 1<<63-2, (1<<32-1)*1000, (1<<32-1)*1000+999, (1<<31)*1000-1)
	case 1, 2:
		s := pickSec(r)
		return s*1000 + uint64(r.PickInt(0, 0, 1, 999, 500))
	case 3:
		return r.Uint64() >> 1
	case 4:
		return r.Uint64() >> uint(1+r.Intn(40))
	default:
		return (uint64(bubbleBase)+uint64(r.Intn(int(200*365*day))))*1000 + uint64(r.Intn(1000))
	}
}

// wrapPoint returns the smallest s with s*mul >= k*2^64, i.e. the first
// second count whose product with mul has wrapped k times in 64 bits
// (k < mul).
func wrapPoint(k, mul uint64) int64 {
	q, rem := bits.Div64(k, 0, mul)
	if rem != 0 {
		q++
	}
	if q > 1<<62 {
		q = 1 << 62
	}
	return int64(q)
}

func edIdent(sh *engine.Shape, r *engine.RNG) {
	sh.Sig, sh.Crypto, sh.Cert = refmodel.SigEd25519, refmodel.EncX25519, "key"
	sh.IdentSeed = 1 + uint64(r.Intn(4))
}

// Generate draws a lease table and a boot sequence.
func (World) Generate(r *engine.RNG, tier string) *engine.Script {
	s := &engine.Script{Property: "C15", Config: map[string]int64{}}
	maxEntries, maxBoots := 10, 6
	if tier == "thorough" {
		maxEntries, maxBoots = 24, 12
	}
	ne := r.Range(1, maxEntries)
	var expiries []int64 // exact expiry instants in ms, for boot placement
	for i := 0; i < ne; i++ {
		op := engine.Op{Op: "entry"}
		sh := &engine.Shape{Seed: r.Uint64() | 1}
		switch k := r.Intn(18); k {
		case 0:
			op.Struct = "lease_parse"
			sh.Kind = "lease"
			sh.U = []uint64{r.Uint64() & 0xFFFFFFFF, pickMillis(r)}
			expiries = append(expiries, int64(sh.U[1]))
		case 1:
			op.Struct = "lease2_parse"
			sh.Kind = "lease2"
			sh.U = []uint64{r.Uint64() & 0xFFFFFFFF, pickSec(r)}
			expiries = append(expiries, int64(sh.U[1])*1000)
		case 2:
			op.Struct = "lease_new"
			ms := pickMillis(r)
			op.N = []int64{int64(ms / 1000), int64(ms%1000)*1e6 + int64(r.PickInt(0, 0, 1, 999999))}
			sh = nil
			expiries = append(expiries, int64(ms))
		case 3:
			op.Struct = "lease2_new"
			sec := int64(pickSec(r))
			switch r.Intn(8) {
			case 0:
				sec = -1 - int64(r.Intn(1000))
			case 1:
				sec = y2106 + 1 + int64(r.Intn(3))
			case 2:
				sec = y2106 + int64(r.Uint64()>>30)
			case 3:
				sec = int64(1<<32) + int64(pickSec(r)) // would wrap to a valid-looking value
			case 4:
				// far beyond the range: powers of two and the points where a
				// multiplication by 1000 / 10^6 / 10^9 wraps a 64-bit intermediate
				// back into a valid-looking value
				switch r.Intn(5) {
				case 0:
					sec = int64(1) << uint(r.Range(33, 62))
				case 1:
					sec = (1<<63 - 1) - int64(r.Intn(3))
				case 2:
					sec = wrapPoint(uint64(r.Range(1, 499)), 1000) + int64(pickSec(r))
				case 3:
					sec = wrapPoint(uint64(r.Range(1, 499999)), 1000000) + int64(pickSec(r))
				default:
					sec = (1<<63-1)/1000 + int64(r.Range(-2, 2))
				}
			}
			op.N = []int64{sec, int64(r.PickInt(0, 0, 1, 999999999))}
			sh = nil
			if sec >= 0 && sec <= y2106 {
				expiries = append(expiries, sec*1000)
			}
		case 4, 5:
			op.Struct = "offsig_parse"
			if r.Chance(1, 3) {
				op.Struct = "offsig_new"
			}
			sh.Kind = "offsig"
			sh.Sig = refmodel.SigEd25519
			sh.IdentSeed = 1 + uint64(r.Intn(4))
			exp := pickSec(r)
			sh.Offline = &engine.OfflineShape{Transient: r.PickInt(7, 7, 11, 1, 0), Expires: exp, Seed: r.Uint64() | 1}
			expiries = append(expiries, int64(exp)*1000)
		case 6, 7, 8:
			op.Struct = "ls2_parse"
			sh.Kind = "ls2"
			edIdent(sh, r)
			sh.N = r.Intn(5)
			sh.Size = r.Range(1, 2)
			sh.U = []uint64{pickSec(r), pickOff(r), uint64(r.Intn(4)) << 1}
			for j := 0; j < sh.N; j++ {
				sh.U = append(sh.U, pickSec(r))
			}
			expiries = append(expiries, int64(sh.U[0]+sh.U[1])*1000)
			expiries = withOffline(r, sh, expiries)
		case 9, 10:
			op.Struct = "els_parse"
			sh.Kind = "els"
			sh.Sig = refmodel.SigEd25519
			sh.IdentSeed = 1 + uint64(r.Intn(4))
			sh.Size = r.Range(61, 120)
			off := pickOff(r)
			if off == 0 {
				off = 1
			}
			sh.U = []uint64{pickSec(r), off, uint64(r.Intn(2)) << 1}
			expiries = append(expiries, int64(sh.U[0]+sh.U[1])*1000)
			expiries = withOffline(r, sh, expiries)
		case 11, 12:
			op.Struct = "mls_parse"
			sh.Kind = "mls"
			edIdent(sh, r)
			sh.N = r.Range(1, 4)
			sh.U = []uint64{pickSec(r), pickOff(r), uint64(r.Intn(2)) << 1}
			for j := 0; j < sh.N; j++ {
				e := pickSec(r)
				sh.U = append(sh.U, e)
				expiries = append(expiries, int64(e)*1000)
			}
			expiries = append(expiries, int64(sh.U[0]+sh.U[1])*1000)
			expiries = withOffline(r, sh, expiries)
		case 13, 14:
			op.Struct = "leaseset_parse"
			sh.Kind = "leaseset"
			sh.Sig, sh.Crypto, sh.Cert = refmodel.SigEd25519, refmodel.EncElGamal, "key"
			sh.IdentSeed = 1 + uint64(r.Intn(4))
			sh.N = r.Range(1, 16)
			base := pickMillis(r)
			for j := 0; j < sh.N; j++ {
				switch r.Intn(4) {
				case 0:
					sh.U = append(sh.U, base) // ties
				case 1:
					v := base + uint64(r.Intn(3))
					if v > 0 {
						v--
					}
					sh.U = append(sh.U, v&(1<<63-1))
				default:
					sh.U = append(sh.U, pickMillis(r))
				}
			}
			expiries = append(expiries, int64(sh.U[r.Intn(sh.N)]))
		case 15:
			// millisecond dates carried by other structures, read back through
			// their accessors: RouterInfo.Published, RouterAddress.Expiration, ReadDate
			ms := pickMillis(r)
			switch r.Intn(3) {
			case 0:
				op.Struct, sh.Kind = "rinfo_parse", "rinfo"
				edIdent(sh, r)
				sh.U = []uint64{ms, 0}
				sh.Sub = []engine.Shape{{Kind: "raddr", U: []uint64{5, pickMillis(r)}, Str: "NTCP2"}}
			case 1:
				op.Struct, sh.Kind = "raddr_parse", "raddr"
				sh.U, sh.Str = []uint64{7, ms}, "SSU2"
			default:
				op.Struct, sh.Kind = "date_parse", "date"
				sh.U = []uint64{ms}
			}
		default:
			op.Struct = r.PickStr("date_from_time", "date_from_millis", "date_from_unix")
			ms := pickMillis(r)
			op.N = []int64{int64(ms / 1000), int64(ms%1000)*1e6 + int64(r.PickInt(0, 0, 1, 999999)), int64(ms)}
			sh = nil
		}
		op.Shape = sh
		s.Ops = append(s.Ops, op)
	}
	nb := r.Range(2, maxBoots)
	for i := 0; i < nb; i++ {
		var t int64
		why := ""
		for tries := 0; tries < 20; tries++ {
			switch r.Intn(10) {
			case 0, 1, 2, 3, 4, 5:
				if len(expiries) == 0 {
					continue
				}
				e := expiries[r.Intn(len(expiries))]
				es := e / 1000
				d := []int64{day, -day, day + 1, day - 1, -day + 1, -day - 1, 1, -1, 0, 2 * day, -2 * day, 400 * day, -400 * day}[r.Intn(13)]
				t, why = es+d, fmt.Sprintf("E%+ds", d)
			case 6:
				t, why = y2038+int64(r.Range(-1, 1)), "around-2038"
			case 7:
				t, why = y2106+int64(r.Range(-1, 1)), "around-2106"
			default:
				t, why = bubbleBase+1+int64(r.Intn(int(maxT-bubbleBase-1))), "uniform"
			}
			if t > bubbleBase && t < maxT {
				break
			}
			t = 0
		}
		if t == 0 {
			t, why = bubbleBase+1+int64(r.Intn(int(maxT-bubbleBase-1))), "uniform"
		}
		zone := r.PickInt(0, 0, 3600, -3600, 19800, -43200, 50400, 20700)
		s.Boots = append(s.Boots, engine.Boot{AtUnix: t, AtNs: int64(r.PickInt(0, 0, 1, 500000000, 999999999)), Zone: zone, Why: why})
	}
	return s
}

// entry is one live item of the lease table together with its exact model.
type entry struct {
	kind string
	// accessors evaluated at every boot; each returns a description of a
	// mismatch with the model or "".
	exact func() string
	// expired returns the library's answer; expiryMs is the exact model expiry.
	expired  func() bool
	validate func() error // expiry leg of Validate, nil if none
	expiryMs int64
	hasExp   bool
	// a second deadline carried by the structure (the expiry of its offline
	// block): "not expired a day before the expiry" is judged only when this one
	// is a day ahead too — whether IsExpired() also honours it is the
	// implementation's choice, but it can only ever make a structure expire sooner
	alsoMs  int64
	hasAlso bool
	// strictAfter: IsExpired is "now > E" (true) / "E < now" — both strict; kept
	// only for the in-band probe.
}

var errSkip = fmt.Errorf("not judged")

func timeIs(t time.Time, sec, nsec int64) bool {
	return t.Unix() == sec && int64(t.Nanosecond()) == nsec
}

func msIs(t time.Time, ms int64) bool {
	return timeIs(t, floorDiv(ms, 1000), floorMod(ms, 1000)*1e6)
}

func floorDiv(a, b int64) int64 {
	q := a / b
	if (a%b != 0) && ((a < 0) != (b < 0)) {
		q--
	}
	return q
}
func floorMod(a, b int64) int64 { return a - floorDiv(a, b)*b }

func dateIs(d data.Date, ms uint64) bool {
	var w [8]byte
	binary.BigEndian.PutUint64(w[:], ms)
	return bytes.Equal(d[:], w[:])
}

// Execute builds the table, then boots nodes at the scripted instants.
func (World) Execute(t *testing.T, s *engine.Script) *engine.Outcome {
	o := engine.NewOutcome()
	var entries []*entry
	for i, op := range s.Ops {
		if op.Op != "entry" {
			continue
		}
		var es []*entry
		if o.Guard("build "+op.Struct, func() { es = buildEntries(o, &op) }) {
			continue
		}
		for _, e := range es {
			entries = append(entries, e)
		}
		o.FP.Step("entry", i, op.Struct, len(es))
	}
	var prev int64
	for bi, b := range s.Boots {
		if b.AtUnix <= bubbleBase || b.AtUnix >= maxT {
			continue
		}
		if bi > 0 && b.AtUnix < prev {
			o.Probe("backward_jump")
		}
		prev = b.AtUnix
		if b.AtUnix > y2038 {
			o.Probe("boot_after_2038")
		}
		if b.AtUnix > y2106 {
			o.Probe("boot_after_2106")
		}
		o.Fault("boot:" + bootKind(b.Why))
		o.SimSeconds += float64(b.AtUnix - bubbleBase)
		func() {
			saved := time.Local
			defer func() { time.Local = saved }()
			synctest.Test(t, func(t *testing.T) {
				time.Local = time.FixedZone("sim", b.Zone)
				target := time.Unix(b.AtUnix, b.AtNs)
				time.Sleep(time.Until(target))
				now := time.Now()
				if !timeIs(now, b.AtUnix, b.AtNs) {
					o.Notes["infra"] = fmt.Sprintf("bubble clock is %v, wanted %v", now, target)
					return
				}
				nowMs := b.AtUnix*1000 + b.AtNs/1e6
				for ei, e := range entries {
					evalEntry(o, e, ei, bi, nowMs, b.AtNs%1e6)
				}
			})
		}()
	}
	return o
}

func bootKind(why string) string {
	if len(why) > 0 && why[0] == 'E' {
		return "relative-to-expiry"
	}
	if why == "" {
		return "scripted"
	}
	return why
}

func evalEntry(o *engine.Outcome, e *entry, ei, bi int, nowMs, subMsNs int64) {
	o.Guard("eval "+e.kind, func() {
		if e.exact != nil {
			if m := e.exact(); m != "" {
				o.Violate("C15/exact/"+e.kind+"/"+firstWord(m), "entry %d (%s) at boot %d: %s", ei, e.kind, bi, m)
			}
		}
		if !e.hasExp {
			o.FP.Step("eval", ei, bi, "exact-only")
			return
		}
		got := e.expired()
		const dayMs = 86400 * 1000
		// T - E >= 24h  => must be expired; E - T >= 24h => must not be.
		// Sub-millisecond parts of T only make T later, never earlier.
		diff := nowMs - e.expiryMs
		switch {
		case diff >= dayMs:
			o.Probe("judged_expired_side")
			if !got {
				o.Violate("C15/expired-a-day-ago-not-reported/"+e.kind, "entry %d (%s): expiry %d ms, now %d ms (%.1f days later) but IsExpired()=false", ei, e.kind, e.expiryMs, nowMs, float64(diff)/dayMs)
			}
			// Whether Validate() also looks at the clock is the implementation's
			// choice (the property speaks of what is *reported expired*, i.e. the
			// IsExpired family); its answer is recorded, not judged.
			if e.validate != nil && e.validate() == nil {
				o.Probe("validate_accepts_a_structure_that_expired_a_day_ago:" + e.kind)
			}
		case -diff >= dayMs && !(-diff == dayMs && subMsNs > 0) && e.hasAlso && e.alsoMs-nowMs <= dayMs:
			o.Probe("future_side_not_judged_offline_block_not_a_day_ahead")
		case -diff >= dayMs && !(-diff == dayMs && subMsNs > 0):
			o.Probe("judged_future_side")
			if got {
				o.Violate("C15/future-reported-expired/"+e.kind, "entry %d (%s): expiry %d ms, now %d ms (%.1f days earlier) but IsExpired()=true", ei, e.kind, e.expiryMs, nowMs, float64(-diff)/dayMs)
			}
			if e.validate != nil {
				if err := e.validate(); err != nil && err != errSkip {
					o.Probe("validate_rejects_a_structure_that_expires_in_a_day:" + e.kind)
				}
			}
		default:
			o.Probe("in_band_not_judged")
			strict := nowMs > e.expiryMs || (nowMs == e.expiryMs && subMsNs > 0)
			if got == strict {
				o.Probe("in_band_agrees_with_strict_model")
			}
		}
		side := "in-band"
		if diff >= dayMs {
			side = "expired-side"
		} else if -diff >= dayMs {
			side = "future-side"
		}
		o.Tag("(entry kind, side of the expiry the clock was on)", e.kind+"/"+side)
		o.FP.Step("eval", ei, bi, got)
	})
}

func firstWord(s string) string {
	for i, c := range s {
		if c == ' ' || c == ':' {
			return s[:i]
		}
	}
	return s
}

func parseFrame(o *engine.Outcome, sh *engine.Shape) *refmodel.Frame {
	f, err := refmodel.Build(sh)
	if err != nil {
		o.Notes["infra"] = "refmodel: " + err.Error()
		return nil
	}
	return f
}

func buildEntries(o *engine.Outcome, op *engine.Op) []*entry {
	switch op.Struct {
	case "lease_parse":
		f := parseFrame(o, op.Shape)
		if f == nil {
			return nil
		}
		l, _, err := lease.ReadLease(f.Bytes)
		if err != nil {
			o.Probe("reference_frame_rejected:lease")
			return nil
		}
		return []*entry{leaseEntry(l, f.Ends[0], "Lease/parsed")}
	case "lease_new":
		sec, ns := op.N[0], op.N[1]
		ms := uint64(sec*1000 + ns/1e6)
		l, err := lease.NewLease(data.Hash{1}, 7, time.Unix(sec, ns))
		if err != nil || l == nil {
			// The property fixes what a constructor stores when it accepts, and that
			// it refuses what does not fit; it does not oblige it to accept every
			// value at the edge of the range (a zero / "undefined" date, the last
			// representable instant). A refusal well inside the range is another
			// matter: no reading of "its range" covers that.
			if ms >= 1000 && ms < 1<<62 {
				o.Violate("C15/exact/Lease/constructed/NewLease-rejects-well-inside-the-range", "NewLease(%d s,%d ns) returned %v", sec, ns, err)
			} else {
				o.Probe("constructor_refuses_at_the_edge_of_the_range:NewLease")
			}
			return nil
		}
		return []*entry{leaseEntry(*l, ms, "Lease/constructed")}
	case "lease2_parse":
		f := parseFrame(o, op.Shape)
		if f == nil {
			return nil
		}
		l, _, err := lease.ReadLease2(f.Bytes)
		if err != nil {
			o.Probe("reference_frame_rejected:lease2")
			return nil
		}
		return []*entry{lease2Entry(l, f.Ends[0], "Lease2/parsed")}
	case "lease2_new":
		sec, ns := op.N[0], op.N[1]
		l, err := lease.NewLease2(data.Hash{1}, 7, time.Unix(sec, ns))
		inRange := sec >= 0 && sec <= y2106
		if !inRange {
			o.Probe("lease2_out_of_range_offered")
			if err == nil {
				got := uint32(0)
				if l != nil {
					got = l.EndDate()
				}
				o.Violate("C15/NewLease2-accepts-out-of-range", "NewLease2(unix=%d) returned no error and stored end date %d", sec, got)
			}
			return nil
		}
		if err != nil || l == nil {
			if sec >= 1 && sec <= 1<<32-2 {
				o.Violate("C15/NewLease2-rejects-well-inside-the-range", "NewLease2(unix=%d) returned %v", sec, err)
			} else {
				o.Probe("constructor_refuses_at_the_edge_of_the_range:NewLease2")
			}
			return nil
		}
		return []*entry{lease2Entry(*l, uint64(sec), "Lease2/constructed")}
	case "offsig_parse", "offsig_new":
		f := parseFrame(o, op.Shape)
		if f == nil {
			return nil
		}
		var os offline_signature.OfflineSignature
		var err error
		if op.Struct == "offsig_parse" {
			os, _, err = offline_signature.ReadOfflineSignature(f.Bytes, uint16(op.Shape.Sig))
		} else {
			kl := refmodel.SigPubLen(op.Shape.Offline.Transient)
			os, err = offline_signature.NewOfflineSignature(uint32(f.Expires), uint16(op.Shape.Offline.Transient), f.Bytes[6:6+kl], f.Bytes[6+kl:], uint16(op.Shape.Sig))
		}
		if err != nil {
			o.Probe("reference_frame_rejected:offsig")
			return nil
		}
		return []*entry{offsigEntry(&os, f.Expires, "OfflineSignature/"+op.Struct[7:])}
	case "ls2_parse":
		f := parseFrame(o, op.Shape)
		if f == nil {
			return nil
		}
		ls, _, err := lease_set2.ReadLeaseSet2(f.Bytes)
		if err != nil {
			o.Probe("reference_frame_rejected:ls2")
			return nil
		}
		es := []*entry{withDeadline(headerEntry("LeaseSet2", f.Published, f.Expires, ls.Published, ls.Expires, ls.PublishedTime, ls.ExpirationTime, ls.IsExpired), op.Shape)}
		ends := f.Ends
		ll := ls.Leases()
		es = append(es, &entry{kind: "LeaseSet2/leases", exact: func() string {
			if len(ll) != len(ends) {
				return fmt.Sprintf("lease-count %d != %d", len(ll), len(ends))
			}
			return ""
		}})
		for i := range ll {
			if i < len(ends) {
				es = append(es, lease2Entry(ll[i], ends[i], "Lease2/in-LeaseSet2"))
			}
		}
		if osig := ls.OfflineSignature(); osig != nil && op.Shape.Offline != nil {
			es = append(es, offsigEntry(osig, op.Shape.Offline.Expires, "OfflineSignature/in-LeaseSet2"))
		}
		return es
	case "els_parse":
		f := parseFrame(o, op.Shape)
		if f == nil {
			return nil
		}
		ls, _, err := encrypted_leaseset.ReadEncryptedLeaseSet(f.Bytes)
		if err != nil {
			o.Probe("reference_frame_rejected:els")
			return nil
		}
		return []*entry{withDeadline(headerEntry("EncryptedLeaseSet", f.Published, f.Expires, ls.Published, ls.Expires, ls.PublishedTime, ls.ExpirationTime, ls.IsExpired), op.Shape)}
	case "mls_parse":
		f := parseFrame(o, op.Shape)
		if f == nil {
			return nil
		}
		ls, _, err := meta_leaseset.ReadMetaLeaseSet(f.Bytes)
		if err != nil {
			o.Probe("reference_frame_rejected:mls")
			return nil
		}
		es := []*entry{withDeadline(headerEntry("MetaLeaseSet", f.Published, f.Expires, ls.Published, ls.Expires, ls.PublishedTime, ls.ExpirationTime, ls.IsExpired), op.Shape)}
		ents := ls.Entries()
		for i := range ents {
			if i >= len(f.Ends) {
				break
			}
			en := &ents[i]
			want := f.Ends[i]
			es = append(es, &entry{kind: "MetaLeaseSetEntry", hasExp: true, expiryMs: int64(want) * 1000,
				expired: en.IsExpired,
				exact: func() string {
					if uint64(en.Expires()) != want {
						return fmt.Sprintf("Expires %d != %d", en.Expires(), want)
					}
					if !timeIs(en.ExpiresTime(), int64(want), 0) {
						return fmt.Sprintf("ExpiresTime %v != %d s", en.ExpiresTime(), want)
					}
					return ""
				}})
		}
		return es
	case "leaseset_parse":
		f := parseFrame(o, op.Shape)
		if f == nil {
			return nil
		}
		ls, err := lease_set.ReadLeaseSet(f.Bytes)
		if err != nil {
			o.Probe("reference_frame_rejected:leaseset")
			return nil
		}
		ends := f.Ends
		es := []*entry{{kind: "LeaseSet/extrema", exact: func() string { return extrema(&ls, ends) }}}
		for i, l := range ls.Leases() {
			if i < len(ends) {
				es = append(es, leaseEntry(l, ends[i], "Lease/in-LeaseSet"))
			}
		}
		return es
	case "rinfo_parse", "raddr_parse", "date_parse":
		f := parseFrame(o, op.Shape)
		if f == nil {
			return nil
		}
		dateEntry := func(kind string, d data.Date, want uint64) *entry {
			return &entry{kind: kind, exact: func() string {
				if !dateIs(d, want) {
					return fmt.Sprintf("bytes %x != %d ms", d[:], want)
				}
				if !msIs(d.Time(), int64(want)) {
					return fmt.Sprintf("Time %v != %d ms", d.Time(), want)
				}
				return ""
			}}
		}
		switch op.Struct {
		case "rinfo_parse":
			ri, _, err := router_info.ReadRouterInfo(f.Bytes)
			if err != nil || ri.Published() == nil {
				o.Probe("reference_frame_rejected:rinfo")
				return nil
			}
			es := []*entry{dateEntry("RouterInfo/Published", *ri.Published(), op.Shape.U[0])}
			for i, a := range ri.RouterAddresses() {
				if a != nil && i < len(op.Shape.Sub) {
					es = append(es, dateEntry("RouterAddress/in-RouterInfo/Expiration", a.Expiration(), op.Shape.Sub[i].U[1]))
				}
			}
			return es
		case "raddr_parse":
			ra, _, err := router_address.ReadRouterAddress(f.Bytes)
			if err != nil {
				o.Probe("reference_frame_rejected:raddr")
				return nil
			}
			return []*entry{dateEntry("RouterAddress/Expiration", ra.Expiration(), op.Shape.U[1])}
		default:
			d, _, err := data.ReadDate(f.Bytes)
			if err != nil {
				o.Probe("reference_frame_rejected:date")
				return nil
			}
			return []*entry{dateEntry("Date/parsed", d, op.Shape.U[0])}
		}
	case "date_from_time", "date_from_millis", "date_from_unix":
		sec, ns, ms := op.N[0], op.N[1], uint64(op.N[2])
		var d *data.Date
		var err error
		want := ms
		switch op.Struct {
		case "date_from_time":
			d, err = data.DateFromTime(time.Unix(sec, ns))
		case "date_from_millis":
			d, err = data.NewDateFromMillis(int64(ms))
		default:
			d, err = data.NewDateFromUnix(sec)
			want = uint64(sec) * 1000
			if uint64(sec) > (1<<63-1)/1000 {
				return nil
			}
		}
		if err != nil || d == nil {
			if want >= 1000 && want < 1<<62 {
				o.Violate("C15/exact/Date/"+op.Struct+"-rejects-well-inside-the-range", "%s(%d,%d,%d) returned %v", op.Struct, sec, ns, ms, err)
			} else {
				o.Probe("constructor_refuses_at_the_edge_of_the_range:" + op.Struct)
			}
			return nil
		}
		dd := *d
		return []*entry{{kind: "Date/" + op.Struct, exact: func() string {
			if !dateIs(dd, want) {
				return fmt.Sprintf("bytes %x != %d ms", dd[:], want)
			}
			if !msIs(dd.Time(), int64(want)) {
				return fmt.Sprintf("Time %v != %d ms", dd.Time(), want)
			}
			return ""
		}}}
	}
	return nil
}

func leaseEntry(l lease.Lease, ms uint64, kind string) *entry {
	return &entry{kind: kind, hasExp: true, expiryMs: int64(ms), expired: l.IsExpired,
		validate: l.Validate,
		exact: func() string {
			if !msIs(l.Time(), int64(ms)) {
				return fmt.Sprintf("Time %v != %d ms", l.Time(), ms)
			}
			if !dateIs(l.Date(), ms) {
				return fmt.Sprintf("Date %x != %d ms", l.Date(), ms)
			}
			if !msIs(l.Date().Time(), int64(ms)) {
				return fmt.Sprintf("Date.Time %v != %d ms", l.Date().Time(), ms)
			}
			return ""
		}}
}

func lease2Entry(l lease.Lease2, sec uint64, kind string) *entry {
	return &entry{kind: kind, hasExp: true, expiryMs: int64(sec) * 1000, expired: l.IsExpired,
		validate: l.Validate,
		exact: func() string {
			if uint64(l.EndDate()) != sec {
				return fmt.Sprintf("EndDate %d != %d", l.EndDate(), sec)
			}
			if !timeIs(l.Time(), int64(sec), 0) {
				return fmt.Sprintf("Time %v != %d s", l.Time(), sec)
			}
			if !dateIs(l.Date(), sec*1000) {
				return fmt.Sprintf("Date %x != %d ms", l.Date(), sec*1000)
			}
			return ""
		}}
}

func offsigEntry(os *offline_signature.OfflineSignature, exp uint64, kind string) *entry {
	return &entry{kind: kind, hasExp: true, expiryMs: int64(exp) * 1000, expired: os.IsExpired,
		validate: func() error {
			if exp == 0 {
				return errSkip // zero expiry fails the structural leg; not the expiry leg
			}
			err := os.Validate()
			if (err == nil) != os.IsValid() {
				return fmt.Errorf("IsValid-disagrees-with-Validate")
			}
			return err
		},
		exact: func() string {
			if uint64(os.Expires()) != exp {
				return fmt.Sprintf("Expires %d != %d", os.Expires(), exp)
			}
			if !timeIs(os.ExpiresTime(), int64(exp), 0) {
				return fmt.Sprintf("ExpiresTime %v != %d s", os.ExpiresTime(), exp)
			}
			d, err := os.ExpiresDate()
			if err != nil || d == nil {
				return fmt.Sprintf("ExpiresDate error %v", err)
			}
			if !dateIs(*d, exp*1000) {
				return fmt.Sprintf("ExpiresDate %x != %d ms", d[:], exp*1000)
			}
			return ""
		}}
}

// withOffline gives one structure in three an offline block with its own,
// independently drawn expiry (a transient key that outlives the structure, or
// one that runs out before it).
func withOffline(r *engine.RNG, sh *engine.Shape, expiries []int64) []int64 {
	if !r.Chance(1, 3) {
		return expiries
	}
	exp := pickSec(r)
	if r.Chance(1, 2) && len(sh.U) >= 2 {
		// near the structure's own expiry, on either side
		exp = uint64(int64(sh.U[0]+sh.U[1]) + int64(r.PickInt(-3*86400, -86400-1, -3600, 3600, 86400+1, 3*86400, 30*86400)))
		if exp > 0xFFFFFFFF {
			exp = pickSec(r)
		}
	}
	sh.Offline = &engine.OfflineShape{Transient: r.PickInt(7, 7, 11, 0), Expires: exp, Seed: r.Uint64() | 1}
	return append(expiries, int64(exp)*1000)
}

// withDeadline records the offline block's expiry as the second deadline of a
// header entry.
func withDeadline(e *entry, sh *engine.Shape) *entry {
	if sh != nil && sh.Offline != nil {
		e.hasAlso, e.alsoMs = true, int64(sh.Offline.Expires)*1000
		e.kind += "+offline-block"
	}
	return e
}

func headerEntry(kind string, pub, off uint64, gpub func() uint32, goff func() uint16, pt, et func() time.Time, exp func() bool) *entry {
	return &entry{kind: kind, hasExp: true, expiryMs: int64(pub+off) * 1000, expired: exp,
		exact: func() string {
			if uint64(gpub()) != pub {
				return fmt.Sprintf("Published %d != %d", gpub(), pub)
			}
			if uint64(goff()) != off {
				return fmt.Sprintf("Expires %d != %d", goff(), off)
			}
			if !timeIs(pt(), int64(pub), 0) {
				return fmt.Sprintf("PublishedTime %v != %d s", pt(), pub)
			}
			if !timeIs(et(), int64(pub+off), 0) {
				return fmt.Sprintf("ExpirationTime %v != %d s (published %d + expires %d)", et(), pub+off, pub, off)
			}
			return ""
		}}
}

func extrema(ls *lease_set.LeaseSet, ends []uint64) string {
	if len(ends) == 0 {
		return ""
	}
	max, min := ends[0], ends[0]
	for _, e := range ends {
		if e > max {
			max = e
		}
		if e < min {
			min = e
		}
	}
	n, err := ls.NewestExpiration()
	if err != nil {
		return fmt.Sprintf("NewestExpiration error %v", err)
	}
	ol, err := ls.OldestExpiration()
	if err != nil {
		return fmt.Sprintf("OldestExpiration error %v", err)
	}
	if !dateIs(n, max) {
		return fmt.Sprintf("NewestExpiration %x is not the maximum %d of %v", n[:], max, ends)
	}
	if !dateIs(ol, min) {
		return fmt.Sprintf("OldestExpiration %x is not the minimum %d of %v", ol[:], min, ends)
	}
	member := func(d data.Date) bool {
		for _, l := range ls.Leases() {
			if l.Date() == d {
				return true
			}
		}
		return false
	}
	if !member(n) || !member(ol) {
		return "extremum-not-a-member"
	}
	return ""
}
