// Package obs computes the observation vector of a library value: the
// canonicalised results of its serialisers and of every exported accessor that
// takes no argument, found by reflection. Two values are "the same" for the
// C03, C08 and C18 oracles iff their observation vectors are equal. The
// definition is deliberately observational, so that changes of internal
// representation never raise an alarm.
package obs

import (
	"encoding/hex"
	"fmt"
	"reflect"
	"sort"
	"strings"
	"time"
)

// Options controls which methods are excluded.
type Options struct {
	// Deny lists "Type.Method" or ".Method" (any type) names that are not
	// called: mutators, key generators, and — per world — accessors that are
	// documented to depend on something the world's oracle must not judge.
	Deny map[string]bool
	// MaxDepth bounds recursion through returned values (default 5).
	MaxDepth int
	// OnPanic, if set, is told about a panicking accessor (counted by the
	// caller as C04/C20 matter); the accessor's result is recorded as "panic".
	OnPanic func(where string, r any)
	// AllowOnly, for the type names it lists, restricts the methods that are
	// called to the given set (an allow-list survives new accessors being added
	// to the type; a deny-list does not). Exported fields of such a type are
	// skipped.
	AllowOnly map[string]map[string]bool
	// Part, if set, is told every top-level member (field, method, method with
	// arguments) of the observed object and its text, in order. Worlds that
	// compare observations over time use it to compare member by member.
	Part func(member, text string)
	// NoFields skips exported struct fields (methods only).
	NoFields bool
	// Args, when set, synthesises arguments for methods that take one or two
	// simple parameters (two fixed variants each); ArgMethod says which method
	// names are read-only. Used down to depth 1.
	Args      func(mt reflect.Type, variant int) ([]reflect.Value, bool)
	ArgMethod func(name string) bool
	// SelfEquals also calls Equals / Equal of every object with the object
	// itself as the argument.
	SelfEquals bool
}

// BaseDeny is excluded in every world: mutators, generators, and methods that
// hand out fresh cryptographic objects.
var BaseDeny = map[string]bool{
	".Zero": true, ".Generate": true, ".NewEncrypter": true, ".NewDecrypter": true, ".NewSigner": true,
	".SetBytes": true, ".Reset": true, ".Lock": true, ".Unlock": true,
	// data.Hash.Bytes returns an array copy; fine. PrintErrors etc. take args.
}

func (o *Options) denied(typ, method string) bool {
	if BaseDeny["."+method] {
		return true
	}
	if set, ok := o.AllowOnly[typ]; ok && !set[method] {
		return true
	}
	if o.Deny == nil {
		return false
	}
	return o.Deny["."+method] || o.Deny[typ+"."+method]
}

var (
	errType  = reflect.TypeOf((*error)(nil)).Elem()
	timeType = reflect.TypeOf(time.Time{})
)

// Observe returns the canonical observation vector of v as text.
func Observe(v any, opt *Options) string {
	if opt == nil {
		opt = &Options{}
	}
	if opt.MaxDepth == 0 {
		opt.MaxDepth = 5
	}
	var sb strings.Builder
	dump(&sb, reflect.ValueOf(v), opt, 0, map[uintptr]bool{})
	return sb.String()
}

// Results canonicalises the results of one call (used for C18 result
// equality).
func Results(vals []reflect.Value, opt *Options) string {
	if opt == nil {
		opt = &Options{}
	}
	if opt.MaxDepth == 0 {
		opt.MaxDepth = 5
	}
	var sb strings.Builder
	for i, v := range vals {
		if i > 0 {
			sb.WriteString(" , ")
		}
		dump(&sb, v, opt, 1, map[uintptr]bool{})
	}
	return sb.String()
}

func isByteSlice(t reflect.Type) bool {
	return (t.Kind() == reflect.Slice || t.Kind() == reflect.Array) && t.Elem().Kind() == reflect.Uint8
}

func dump(sb *strings.Builder, v reflect.Value, opt *Options, depth int, seen map[uintptr]bool) {
	if !v.IsValid() {
		sb.WriteString("<invalid>")
		return
	}
	t := v.Type()
	if t.Implements(errType) && (t.Kind() == reflect.Interface || t.Kind() == reflect.Ptr) {
		// oops errors embed timestamps and stack traces: nil / non-nil only.
		if v.IsNil() {
			sb.WriteString("err:nil")
		} else {
			sb.WriteString("err:set")
		}
		return
	}
	if t == timeType {
		tm := v.Interface().(time.Time)
		fmt.Fprintf(sb, "time:%d.%09d", tm.Unix(), tm.Nanosecond())
		return
	}
	switch t.Kind() {
	case reflect.Interface:
		if v.IsNil() {
			sb.WriteString("iface:nil")
			return
		}
		dump(sb, v.Elem(), opt, depth, seen)
		return
	case reflect.Ptr:
		if v.IsNil() {
			sb.WriteString("ptr:nil")
			return
		}
		if depth > 0 && seen[v.Pointer()] {
			sb.WriteString("ptr:cycle")
			return
		}
		seen[v.Pointer()] = true
		defer delete(seen, v.Pointer())
		if t.NumMethod() > 0 && depth < opt.MaxDepth {
			dumpObject(sb, v, opt, depth, seen)
			return
		}
		dump(sb, v.Elem(), opt, depth, seen)
		return
	}
	if t.NumMethod() > 0 && t.PkgPath() != "" && depth < opt.MaxDepth && t.Kind() != reflect.Func {
		// addressable copy so that pointer-receiver methods are reachable
		pv := reflect.New(t)
		pv.Elem().Set(v)
		dumpObject(sb, pv, opt, depth, seen)
		return
	}
	if reflect.PointerTo(t).NumMethod() > 0 && t.PkgPath() != "" && depth < opt.MaxDepth && t.Kind() == reflect.Struct {
		pv := reflect.New(t)
		pv.Elem().Set(v)
		dumpObject(sb, pv, opt, depth, seen)
		return
	}
	dumpPlain(sb, v, opt, depth, seen)
}

func dumpPlain(sb *strings.Builder, v reflect.Value, opt *Options, depth int, seen map[uintptr]bool) {
	t := v.Type()
	switch t.Kind() {
	case reflect.Bool:
		fmt.Fprintf(sb, "%v", v.Bool())
	case reflect.Int, reflect.Int8, reflect.Int16, reflect.Int32, reflect.Int64:
		fmt.Fprintf(sb, "%d", v.Int())
	case reflect.Uint, reflect.Uint8, reflect.Uint16, reflect.Uint32, reflect.Uint64, reflect.Uintptr:
		fmt.Fprintf(sb, "%d", v.Uint())
	case reflect.Float32, reflect.Float64:
		fmt.Fprintf(sb, "%g", v.Float())
	case reflect.String:
		fmt.Fprintf(sb, "%q", v.String())
	case reflect.Slice, reflect.Array:
		if t.Kind() == reflect.Slice && v.IsNil() {
			// nil and empty are observationally the same to callers that
			// range or take len; keep them equal.
			sb.WriteString("[]")
			return
		}
		if isByteSlice(t) {
			b := make([]byte, v.Len())
			reflect.Copy(reflect.ValueOf(b), v)
			sb.WriteString("x")
			sb.WriteString(hex.EncodeToString(b))
			return
		}
		sb.WriteString("[")
		for i := 0; i < v.Len(); i++ {
			if i > 0 {
				sb.WriteString(",")
			}
			dump(sb, v.Index(i), opt, depth+1, seen)
		}
		sb.WriteString("]")
	case reflect.Map:
		type kv struct{ k, v string }
		var items []kv
		it := v.MapRange()
		for it.Next() {
			var kb, vb strings.Builder
			dump(&kb, it.Key(), opt, depth+1, seen)
			dump(&vb, it.Value(), opt, depth+1, seen)
			items = append(items, kv{kb.String(), vb.String()})
		}
		sort.Slice(items, func(i, j int) bool { return items[i].k < items[j].k })
		sb.WriteString("map{")
		for _, x := range items {
			sb.WriteString(x.k + ":" + x.v + ";")
		}
		sb.WriteString("}")
	case reflect.Struct:
		sb.WriteString(t.Name() + "{")
		for i := 0; i < t.NumField(); i++ {
			if !t.Field(i).IsExported() {
				continue
			}
			sb.WriteString(t.Field(i).Name + "=")
			dump(sb, v.Field(i), opt, depth+1, seen)
			sb.WriteString(";")
		}
		sb.WriteString("}")
	case reflect.Func, reflect.Chan, reflect.UnsafePointer:
		sb.WriteString("<" + t.Kind().String() + ">")
	default:
		fmt.Fprintf(sb, "<%s>", t.Kind())
	}
}

// dumpObject dumps a value through its methods (pv is a non-nil pointer).
func dumpObject(sb *strings.Builder, pv reflect.Value, opt *Options, depth int, seen map[uintptr]bool) {
	pt := pv.Type()
	et := pt.Elem()
	name := et.Name()
	sb.WriteString(name + "<")
	// the plain content first (byte arrays, named slices such as Integer)
	switch et.Kind() {
	case reflect.Struct:
		if _, restricted := opt.AllowOnly[name]; !opt.NoFields && !restricted {
			for i := 0; i < et.NumField(); i++ {
				if !et.Field(i).IsExported() || et.Field(i).Anonymous {
					continue
				}
				at := sb.Len()
				sb.WriteString(et.Field(i).Name + "=")
				dump(sb, pv.Elem().Field(i), opt, depth+1, seen)
				sb.WriteString(";")
				part(sb, opt, depth, et.Field(i).Name, at)
			}
		}
	default:
		at := sb.Len()
		dumpPlain(sb, pv.Elem(), opt, depth+1, seen)
		sb.WriteString(";")
		part(sb, opt, depth, "(content)", at)
	}
	for i := 0; i < pt.NumMethod(); i++ {
		m := pt.Method(i)
		if m.IsExported() && opt.Args != nil && depth <= 1 && m.Type.NumIn() >= 2 && m.Type.NumIn() <= 3 && m.Type.NumOut() > 0 && !m.Type.IsVariadic() &&
			opt.ArgMethod != nil && opt.ArgMethod(m.Name) && !opt.denied(name, m.Name) {
			for variant := 0; variant < 2; variant++ {
				args, ok := opt.Args(m.Type, variant)
				if !ok {
					break
				}
				at := sb.Len()
				fmt.Fprintf(sb, "%s(args%d)=", m.Name, variant)
				func() {
					defer func() {
						if r := recover(); r != nil {
							sb.WriteString("panic")
							if opt.OnPanic != nil {
								opt.OnPanic(name+"."+m.Name, r)
							}
						}
					}()
					for j, out := range pv.Method(i).Call(args) {
						if j > 0 {
							sb.WriteString(",")
						}
						dump(sb, out, opt, depth+1, seen)
					}
				}()
				sb.WriteString(";")
				part(sb, opt, depth, fmt.Sprintf("%s(args%d)", m.Name, variant), at)
			}
			continue
		}
		if opt.SelfEquals && m.IsExported() && (m.Name == "Equals" || m.Name == "Equal") && m.Type.NumIn() == 2 && m.Type.NumOut() > 0 && !opt.denied(name, m.Name) {
			// x.Equals(x): a comparison is a read-only call with an argument of the
			// value's own type; comparing a value with itself needs no twin and
			// reaches the nested objects too
			var arg reflect.Value
			switch m.Type.In(1) {
			case pt:
				arg = pv
			case et:
				arg = pv.Elem()
			}
			if arg.IsValid() {
				at := sb.Len()
				sb.WriteString(m.Name + "(self)=")
				func() {
					defer func() {
						if r := recover(); r != nil {
							sb.WriteString("panic")
							if opt.OnPanic != nil {
								opt.OnPanic(name+"."+m.Name, r)
							}
						}
					}()
					for j, out := range pv.Method(i).Call([]reflect.Value{arg}) {
						if j > 0 {
							sb.WriteString(",")
						}
						dump(sb, out, opt, depth+1, seen)
					}
				}()
				sb.WriteString(";")
				part(sb, opt, depth, m.Name+"(self)", at)
			}
			continue
		}
		if !m.IsExported() || m.Type.NumIn() != 1 || m.Type.NumOut() == 0 || m.Type.IsVariadic() {
			continue
		}
		if opt.denied(name, m.Name) {
			continue
		}
		at := sb.Len()
		sb.WriteString(m.Name + "()=")
		func() {
			defer func() {
				if r := recover(); r != nil {
					sb.WriteString("panic")
					if opt.OnPanic != nil {
						opt.OnPanic(name+"."+m.Name, r)
					}
				}
			}()
			outs := pv.Method(i).Call(nil)
			for j, out := range outs {
				if j > 0 {
					sb.WriteString(",")
				}
				dump(sb, out, opt, depth+1, seen)
			}
		}()
		sb.WriteString(";")
		part(sb, opt, depth, m.Name+"()", at)
	}
	sb.WriteString(">")
}

// part reports one top-level member to opt.Part.
func part(sb *strings.Builder, opt *Options, depth int, member string, from int) {
	if depth == 0 && opt.Part != nil {
		opt.Part(member, sb.String()[from:])
	}
}

// Member is one top-level member of an observation.
type Member struct{ Name, Text string }

// Members observes v and returns its top-level members in order (a value
// without members is one member named "(value)").
func Members(v any, opt *Options) []Member {
	o2 := Options{}
	if opt != nil {
		o2 = *opt
	}
	var ms []Member
	o2.Part = func(n, t string) { ms = append(ms, Member{n, t}) }
	s := Observe(v, &o2)
	if len(ms) == 0 {
		ms = []Member{{"(value)", s}}
	}
	return ms
}

// Render joins the members that are not masked.
func Render(ms []Member, mask map[string]bool) string {
	var sb strings.Builder
	for _, m := range ms {
		if !mask[m.Name] {
			sb.WriteString(m.Text)
		}
	}
	return sb.String()
}

// Unstable names the members that differ between two observations which, for
// a value that is a function of its input, would have to be equal (the same
// value observed twice; two values parsed from the same bytes). Such a member
// reports something else — a clock, a call or parse counter, shared statistics
// — and cannot be used to tell whether the value changed.
func Unstable(a, b []Member) map[string]bool {
	var mask map[string]bool
	for i := range a {
		if i >= len(b) || a[i].Name != b[i].Name || a[i].Text != b[i].Text {
			if mask == nil {
				mask = map[string]bool{}
			}
			mask[a[i].Name] = true
		}
	}
	return mask
}
