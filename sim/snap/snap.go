// Package snap takes a deep snapshot of a value's memory: unexported fields,
// pointer targets, interface contents and slice backing arrays up to
// capacity, rendered canonically. It is the verdict for "read-only operations
// mutate neither the receiver nor package-level state" (C18) and a locator
// elsewhere.
package snap

import (
	"encoding/hex"
	"fmt"
	"reflect"
	"sort"
	"strings"
	"sync"
	"unsafe"
)

// Opaque lists package-path substrings whose objects are owned by
// dependencies that legitimately change (logger internals): compared by
// pointer identity only.
var Opaque = []string{"go-i2p/logger", "sirupsen/logrus", "samber/oops"}

var poolType = reflect.TypeOf(sync.Pool{})

func opaque(t reflect.Type) bool {
	p := t.PkgPath()
	if p == "" && (t.Kind() == reflect.Ptr || t.Kind() == reflect.Slice) {
		p = t.Elem().PkgPath()
	}
	for _, o := range Opaque {
		if strings.Contains(p, o) {
			return true
		}
	}
	return false
}

// Of snapshots the value p points to. p must be a non-nil pointer.
func Of(p any) string {
	v := reflect.ValueOf(p)
	if v.Kind() != reflect.Ptr || v.IsNil() {
		return fmt.Sprintf("<not a pointer: %T>", p)
	}
	var sb strings.Builder
	w := &walker{sb: &sb, seen: map[visit]bool{}}
	w.walk(v.Elem(), 0)
	return sb.String()
}

type visit struct {
	p uintptr
	t reflect.Type
}

type walker struct {
	sb   *strings.Builder
	seen map[visit]bool
}

// access makes an unexported (read-only flagged) value readable.
func access(v reflect.Value) reflect.Value {
	if v.CanInterface() || !v.CanAddr() {
		return v
	}
	return reflect.NewAt(v.Type(), unsafe.Pointer(v.UnsafeAddr())).Elem()
}

func (w *walker) walk(v reflect.Value, depth int) {
	if depth > 40 {
		w.sb.WriteString("<deep>")
		return
	}
	if !v.IsValid() {
		w.sb.WriteString("<invalid>")
		return
	}
	t := v.Type()
	if opaque(t) {
		switch t.Kind() {
		case reflect.Ptr, reflect.Map, reflect.Chan, reflect.Func, reflect.UnsafePointer, reflect.Slice:
			fmt.Fprintf(w.sb, "<opaque %s @%x>", t, v.Pointer())
		default:
			fmt.Fprintf(w.sb, "<opaque %s>", t)
		}
		return
	}
	switch t.Kind() {
	case reflect.Bool:
		fmt.Fprintf(w.sb, "%v", v.Bool())
	case reflect.Int, reflect.Int8, reflect.Int16, reflect.Int32, reflect.Int64:
		fmt.Fprintf(w.sb, "%d", v.Int())
	case reflect.Uint, reflect.Uint8, reflect.Uint16, reflect.Uint32, reflect.Uint64, reflect.Uintptr:
		fmt.Fprintf(w.sb, "%d", v.Uint())
	case reflect.Float32, reflect.Float64, reflect.Complex64, reflect.Complex128:
		fmt.Fprintf(w.sb, "%v", v)
	case reflect.String:
		fmt.Fprintf(w.sb, "%q", v.String())
	case reflect.Ptr:
		if v.IsNil() {
			w.sb.WriteString("nil")
			return
		}
		k := visit{v.Pointer(), t}
		if w.seen[k] {
			fmt.Fprintf(w.sb, "<seen %s>", t)
			return
		}
		w.seen[k] = true
		w.sb.WriteString("&")
		w.walk(v.Elem(), depth+1)
	case reflect.Interface:
		if v.IsNil() {
			w.sb.WriteString("iface:nil")
			return
		}
		e := v.Elem()
		fmt.Fprintf(w.sb, "iface(%s):", e.Type())
		if !e.CanAddr() {
			// interface payloads are not addressable: copy to reach unexported fields
			c := reflect.New(e.Type()).Elem()
			c.Set(e)
			e = c
		}
		w.walk(e, depth+1)
	case reflect.Slice:
		if v.IsNil() {
			w.sb.WriteString("slice:nil")
			return
		}
		full := v
		if v.Cap() > v.Len() {
			full = v.Slice(0, v.Cap()) // up to capacity: spare room is where appends land
		}
		fmt.Fprintf(w.sb, "slice(len=%d,cap=%d)", v.Len(), v.Cap())
		if t.Elem().Kind() == reflect.Uint8 {
			b := make([]byte, full.Len())
			reflect.Copy(reflect.ValueOf(b), full)
			w.sb.WriteString(hex.EncodeToString(b))
			return
		}
		w.sb.WriteString("[")
		for i := 0; i < full.Len(); i++ {
			w.walk(access(full.Index(i)), depth+1)
			w.sb.WriteString(",")
		}
		w.sb.WriteString("]")
	case reflect.Array:
		if t.Elem().Kind() == reflect.Uint8 {
			b := make([]byte, v.Len())
			for i := range b {
				b[i] = byte(v.Index(i).Uint())
			}
			w.sb.WriteString("arr:" + hex.EncodeToString(b))
			return
		}
		w.sb.WriteString("arr[")
		for i := 0; i < v.Len(); i++ {
			w.walk(access(v.Index(i)), depth+1)
			w.sb.WriteString(",")
		}
		w.sb.WriteString("]")
	case reflect.Map:
		if v.IsNil() {
			w.sb.WriteString("map:nil")
			return
		}
		type kv struct{ k, v string }
		var items []kv
		it := v.MapRange()
		for it.Next() {
			var kb, vb strings.Builder
			kw := &walker{sb: &kb, seen: w.seen}
			kk := reflect.New(it.Key().Type()).Elem()
			kk.Set(it.Key())
			kw.walk(kk, depth+1)
			vw := &walker{sb: &vb, seen: w.seen}
			vv := reflect.New(it.Value().Type()).Elem()
			vv.Set(it.Value())
			vw.walk(vv, depth+1)
			items = append(items, kv{kb.String(), vb.String()})
		}
		sort.Slice(items, func(i, j int) bool { return items[i].k < items[j].k })
		fmt.Fprintf(w.sb, "map(%d){", len(items))
		for _, x := range items {
			w.sb.WriteString(x.k + ":" + x.v + ";")
		}
		w.sb.WriteString("}")
	case reflect.Struct:
		if t == poolType || t.Name() == "Pool" && strings.HasSuffix(t.PkgPath(), "/zzsimyield") {
			// what a sync.Pool holds is decided by the garbage collector (it drops
			// the victim cache at every cycle) and by which P a goroutine ran on,
			// not by the program: it is not part of the state a snapshot compares
			// (in the instrumented copy the library's pools are zzsimyield.Pool,
			// deterministic; a pool that is used correctly is not a finding, one
			// that is not shows in the results and in the race detector)
			w.sb.WriteString("sync.Pool{contents not compared}")
			return
		}
		w.sb.WriteString(t.Name() + "{")
		for i := 0; i < t.NumField(); i++ {
			w.sb.WriteString(t.Field(i).Name + "=")
			w.walk(access(v.Field(i)), depth+1)
			w.sb.WriteString(";")
		}
		w.sb.WriteString("}")
	case reflect.Func:
		if v.IsNil() {
			w.sb.WriteString("func:nil")
		} else {
			w.sb.WriteString("func")
		}
	case reflect.Chan, reflect.UnsafePointer:
		fmt.Fprintf(w.sb, "<%s>", t.Kind())
	default:
		fmt.Fprintf(w.sb, "<%s>", t.Kind())
	}
}
