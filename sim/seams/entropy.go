// Package seams holds simulator-owned replacements for sources of
// nondeterminism that more than one world uses.
package seams

import (
	"fmt"
	"io"
)

// FaultyReader is the entropy seam with fault injection: it wraps the run's
// pinned ChaCha8 stream (crypto/rand.Reader as set by cryptotest) and injects
// short reads, a stream restart (VM clone), degenerate output, or an error on
// the first 32 bytes.
type FaultyReader struct {
	Under   io.Reader
	Kind    string
	Param   int
	served  int
	history []byte
	Fired   bool
}

func (f *FaultyReader) Read(b []byte) (int, error) {
	if len(b) == 0 {
		return 0, nil
	}
	switch f.Kind {
	case "entropy_short":
		n := 1 + f.Param%7
		if n < len(b) {
			b = b[:n]
			f.Fired = true
		}
		n2, err := f.Under.Read(b)
		f.served += n2
		return n2, err
	case "entropy_restart":
		// VM clone: after param+1 bytes the stream starts over
		for i := range b {
			if f.served <= f.Param {
				var one [1]byte
				if _, err := f.Under.Read(one[:]); err != nil {
					return i, err
				}
				f.history = append(f.history, one[0])
				b[i] = one[0]
			} else {
				b[i] = f.history[(f.served-f.Param-1)%len(f.history)]
				f.Fired = true
			}
			f.served++
		}
		return len(b), nil
	case "entropy_zero":
		for i := range b {
			b[i] = 0
		}
		f.Fired = true
		f.served += len(b)
		return len(b), nil
	case "entropy_ones":
		for i := range b {
			b[i] = 0xFF
		}
		f.Fired = true
		f.served += len(b)
		return len(b), nil
	case "entropy_error":
		// only on the read that goes through an io.Reader argument (the
		// ephemeral key generation, first 32 bytes): crypto/rand.Read aborts
		// the process when a replaced Reader fails.
		at := f.Param % 32
		if f.served+len(b) > at && f.served < 32 {
			n := at - f.served
			if n < 0 {
				n = 0
			}
			n2, _ := f.Under.Read(b[:n])
			f.served += n2
			f.Fired = true
			return n2, fmt.Errorf("simulated entropy source failure after %d bytes", f.served)
		}
	}
	n, err := f.Under.Read(b)
	f.served += n
	return n, err
}
