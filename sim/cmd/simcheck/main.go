// simcheck is the driver behind /verif/bin/check: it copies the current /repo
// working tree to a scratch directory, (for C18) instruments the copy, builds
// the world's test binary against the copy with go1.26.8, fans seeded runs out
// over worker processes, merges their results, confirms every new violation by
// replaying its minimised script in a fresh process, writes the evidence file
// and prints the verdict lines.
//
// Exit status: 0 held (known findings are printed, not alarms), 1 violation,
// 2 infrastructure trouble (build failure, watchdog, nondeterminism, replay
// mismatch). Never anything else.
package main

import (
	"bytes"
	"encoding/json"
	"fmt"
	"io"
	"io/fs"
	"os"
	"os/exec"
	"path/filepath"
	"regexp"
	"runtime"
	"sort"
	"strconv"
	"strings"
	"sync"
	"sync/atomic"
	"time"

	"i2psim.local/sim/engine"
	"i2psim.local/sim/instrument"
)

const goBin = "go1.26.8"

// verifDir is /verif, or the snapshot of it the driver was started from
// (VERIF_ROOT is set by bin/check from its own location).
var (
	verifDir = envOr("VERIF_ROOT", "/verif")
	simDir   = filepath.Join(verifDir, "sim")
)

func envOr(k, def string) string {
	if v := os.Getenv(k); v != "" {
		return v
	}
	return def
}

type propCfg struct {
	World        string
	QuickRuns    int
	ThoroughRuns int
	// Race pass (conc only): runs executed in a -race build.
	QuickRace    int
	ThoroughRace int
	Instrument   bool
	Rule         string
	Assumptions  []string
	Components   map[string]string
	TimeoutQuick time.Duration
	TimeoutThoro time.Duration
}

var commonComponents = map[string]string{
	"go-i2p/common parsers, serialisers, constructors, validators, verifiers":       "real code: current /repo working tree, compiled by go1.26.8 (repository pins 1.24.12)",
	"go-i2p/crypto, go-i2p/logger, oops, x25519, Go standard crypto":                "real code, module-cache versions from /repo/go.sum",
	"reference encoder / extent calculator / reference verifier / exact time model": "oracle written for this project (sim/refmodel); never calls the library",
}

func comps(extra map[string]string) map[string]string {
	m := map[string]string{}
	for k, v := range commonComponents {
		m[k] = v
	}
	for k, v := range extra {
		m[k] = v
	}
	return m
}

var props = map[string]propCfg{
	"C18": {World: "conc", QuickRuns: 2500, ThoroughRuns: 300000, QuickRace: 500, ThoroughRace: 50000, Instrument: true,
		Rule:         "one run = one shared value (parsed from reference bytes by one of the 38 entry points, or built by a signing constructor) read by 2..4 tasks, each executing 1..4 scripted read-only calls (every exported argument-free method found by reflection, read-only methods with synthesised simple arguments, Equals/Equal against a private twin and against the value itself, full recursive observation, package-level size lookups, parsing the same bytes again, handing the value to the library functions that take one) while a scripted schedule of 0..6 preemptions hands control from task to task at yield points inserted before every statement of the library (text splice into a scratch copy; about 4.5k sites). Oracles per run: result equality with solo execution on a private instance (a call whose result differs between three solo executions is not judged by it); the same call repeated on fresh instances must execute the same number of statements from the second time on (trace); deep memory snapshot (to capacity) of the shared value and of every package-level variable before/after; and, in a -race build of the same scripts, the race detector with a hand-over it cannot see. Non-trivial = at least one preemption happened; distinct = distinct run fingerprints, which include a hash of the executed (yield ordinal, from-task, to-task, site) switch sequence.",
		Assumptions:  []string{"dependencies (go-i2p/crypto, logger, oops, stdlib) are not instrumented and run atomically between yields", "statement granularity is the finest interleaving produced; the snapshot and race oracles do not need the bad interleaving to occur", "the norace hand-over relies on amd64 TSO and on the compiler not moving memory operations across a non-inlined call", "objects owned by dependencies (the logger behind each package's log variable) are compared by pointer identity only"},
		Components:   comps(map[string]string{"scheduler": "simulated: real goroutines, one runnable at a time, hand-over only at inserted yield points in scripted order (spin on a plain word in //go:norace functions)", "yield points": "go/parser-located text splice into the scratch copy of /repo made by the check; the repository's own suite passes on the instrumented copy", "race detector": "Go's ThreadSanitizer runtime used as an in-simulation oracle over the controlled schedule", "clock": "simulated: time.Now / time.Since / time.Until of the library are replaced in the scratch copy by a frozen instant (a synctest bubble cannot be used here: a detector report fails the bubble and aborts the run)", "locks": "real sync.Mutex / RWMutex / Once; every Lock/Unlock of the library is bracketed in the scratch copy and the scheduler never parks a task that holds one", "sync.Pool": "simulated: replaced in the scratch copy by a deterministic LIFO pool (no GC victim cache, no per-P shards, no random drop in race builds)"}),
		TimeoutQuick: 8 * time.Minute, TimeoutThoro: 150 * time.Minute},
	"C16": {World: "els", QuickRuns: 4000, ThoroughRuns: 500000,
		Rule:         "one run = 2..16 operations between a publisher, a floodfill store and 3 clients: encrypt a LeaseSet2 parsed from reference bytes or built by the signing constructor (shapes, key forms and cookies drawn per run; one in 25 padded with options to the largest size an EncryptedLeaseSet can carry, 65535-60 bytes, or just below / above) to a client's X25519 key under a scripted entropy stream (optionally faulted: short reads, stream restart = VM clone, all-zero / all-0xFF output, reader error during key generation), corrupt a stored ciphertext (one bit/byte in ephemeral key, nonce, body or tag), truncate/extend it, fetch and open it with the right or a wrong client's key (all accepted key forms), in the thorough tier flip one bit at every byte position of a ciphertext; and blind a destination on two nodes, each in its own synctest bubble with its own instant (either side of UTC midnight, seconds to days of skew) and fixed time zone (UTC-12..UTC+14). Non-trivial = at least one fault / corruption / mis-delivery / node boot fired; distinct = distinct run fingerprints.",
		Assumptions:  []string{"kdf.DeriveBlindingFactor (dependency) is the derived factor the property speaks of; the UTC calendar day is computed independently of the time package", "reader errors are injected only on the read that goes through an io.Reader argument (ephemeral key generation): crypto/rand.Read aborts the process when a replaced Reader fails", "a ciphertext shorter than 61 bytes cannot be wrapped in an EncryptedLeaseSet at all and is counted as a probe"},
		Components:   comps(map[string]string{"entropy": "simulated: crypto/rand.Reader wrapper over the per-run ChaCha8 stream with fault injection", "floodfill store": "simulated: in-memory store with bit rot, truncation, extension, mis-delivery", "clocks": "simulated: one synctest bubble per node boot, per-node time zone", "X25519 / HKDF / ChaCha20-Poly1305 / blinding KDF": "real code (dependencies)"}),
		TimeoutQuick: 5 * time.Minute, TimeoutThoro: 150 * time.Minute},
	"C05": {World: "auth", QuickRuns: 8000, ThoroughRuns: 1000000,
		Rule:         "one run = one traffic history: 1..40 messages (RouterInfo, LeaseSet, LeaseSet2, MetaLeaseSet, EncryptedLeaseSet, bare OfflineSignature) of up to 8 honest publisher identities of every verifiable signature type, built by the reference encoder and signed with Go's standard crypto, delivered to a floodfill actor (library: parse + Verify) through a transport that records all traffic and applies 0..3 scripted faults per message: bit flips and byte rewrites placed by the field map, junk inside a mapping's declared size, bytes after the signature, signature swap (random / zero / another message's), key substitution, offline-block forgery (random / zero offline signature, attacker-owned transient key), offline-block transplant from a Byzantine identity, a delegate stretching its own delegation, store-type confusion, certificate / peer slack, element smuggling and swapping, whole smuggled mapping pairs, type confusion, flag downgrade, revocation-key forgery, replay; for half of the tampered messages the floodfill has verified the honest original first; every message that library and reference rejected is delivered again at the end of the run, after a pause on the simulated clock (0 s .. 25 h) and, in 1 run of 30, after 40..1100 other honest stores have been verified. Oracle: library accepts => the reference verifier accepts the raw delivered bytes. Non-trivial = at least one fault fired; distinct = distinct run fingerprints.",
		Assumptions:  []string{"soundness direction only: 'reference accepts, library rejects' is not judged here (C06/C02)", "the reference verifier states exactly three facts: which key (right-justified in the 384-byte block, or the blinded key), which bytes (consumed minus trailing signature, with store-type prefix 3/5/7), and the offline chain; for signature type 8 it accepts Ed25519ph and pure Ed25519 (the question is whose key, not which variant)", "honest messages carry no fault; the evidence reports how often library and reference agree on them"},
		Components:   comps(map[string]string{"publishers": "harness actors; honest messages come from the reference encoder + Go standard crypto, not from the library's constructors", "transport / adversary": "simulated: records traffic, tampers in flight", "floodfill": "harness actor calling the real Read*/Verify*", "clock": "simulated: synctest bubble; advanced by the scripted pause before the late re-delivery"}),
		TimeoutQuick: 5 * time.Minute, TimeoutThoro: 150 * time.Minute},
	"C06": {World: "auth", QuickRuns: 6000, ThoroughRuns: 800000,
		Rule:         "one run = 1..40 publications through the library's own signing constructors (NewRouterInfo, NewLeaseSet, NewLeaseSet2, NewEncryptedLeaseSet, CreateOfflineSignature) with the private key matching the contained identity and scripted admissible contents (options incl. empty values, one-character keys, 255-byte strings; 0..255 addresses; 0..16 leases; flag combinations; with/without offline block; every signing type the constructor takes), fault-free transport. Obligations per publication: constructed value verifies (in 1 of 3 publications after every read-only accessor has been called on it); it serialises twice to the same bytes; the serialisation parses completely; the parsed value verifies (also when followed by another frame); the transport holds the very slice Bytes() returned and the publisher holds the value for 0..5 further publications: at delivery the slice is unchanged and still verifies, the value still verifies and serialises to bytes that verify. Non-trivial = at least one constructor call; distinct = distinct run fingerprints.",
		Assumptions:  []string{"a constructor that returns an error imposes no obligation (counted as a probe)", "entropy for DSA/ECDSA/Ed25519ph comes from the run's pinned source (cryptotest.SetGlobalRandom)"},
		Components:   comps(map[string]string{"publishers": "harness actors calling the real signing constructors", "transport": "simulated, fault-free configuration of the C05 world; delivery delayed past later publications", "floodfill": "harness actor calling the real Read*/Verify*", "entropy": "simulated: testing/cryptotest global source seeded per run"}),
		TimeoutQuick: 5 * time.Minute, TimeoutThoro: 150 * time.Minute},
	"C08": {World: "buf", QuickRuns: 8000, ThoroughRuns: 1000000,
		Rule:         "one run = one history of 3..25 operations over a pool of 2..4 transport-owned 4 KiB receive buffers: Recv (a reference-encoded frame of one of the 21 entry points for the structures C08 lists is written into a buffer, possibly at a non-zero offset and followed by the next packet, parsed, and the value kept), Scribble (a field of the frame chosen from the reference field map, or the whole buffer, is overwritten with zeros / 0xFF / inverted / PRNG bytes), Recycle (Recv into a buffer that already holds a frame), ScribbleReturned (overwrite the slices handed out by the accessors documented to return copies). After every operation every live value's observation vector (all exported argument-free accessors, recursively) must equal the one captured right after its parse. Non-trivial = at least one scribble/recycle fired; distinct = distinct run fingerprints.",
		Assumptions:  []string{"for LeaseSet2 / MetaLeaseSet the observation leaves out Options(), entry Properties() and the serialisers/verifier that include them (the property exempts the options mappings)", "only frames the parser accepts are kept as live values", "accessors not documented to return copies are never scribbled"},
		Components:   comps(map[string]string{"transport": "simulated: owns and recycles the receive buffers, corrupts stored bytes at arbitrary instants", "consumer": "harness code: calls the library parser on the buffer slice, keeps the value, observes it by reflection", "clock": "synctest bubble (fixed instant)"}),
		TimeoutQuick: 5 * time.Minute, TimeoutThoro: 150 * time.Minute},
	"C03": {World: "stream", QuickRuns: 8000, ThoroughRuns: 300000,
		Rule:         "one run = one simulated connection: 1..12 reference-encoded frames for randomly chosen remainder-returning entry points (37 of them), delivered as a byte stream cut at scripted offsets (biased by the reference field map to length/count fields and extent-1/extent/extent+1), at a fixed MSS down to 1 byte, coalesced, or reset at a byte offset; or as datagrams followed by 0..64 bytes of padding of six kinds, some truncated. The receiver frames the stream with the library's own remainders only. Non-trivial = at least one cut, reset, padding or truncation fired; distinct = distinct run fingerprints (SHA-256 over every parse attempt's (frame, buffered bytes, success, remainder length)).",
		Assumptions:  []string{"only frames the parser accepts when given exactly the reference encoding are sent (C03 quantifies over accepted inputs); rejected reference frames are counted as probes", "success per entry point: err == nil; ReadInteger: result of the requested length; ReadMapping/NewMapping: no error other than the documented 'data exists beyond length of mapping' warning", "Certificate.RawBytes/ExcessBytes and KeyCertificate.Data are documented to expose bytes beyond the declared length and are left out of the 'same value' comparison; RouterInfo.String is left out for cost (quadratic in the size of the structure)", "a reference frame the parser refuses alone is parsed again followed by continuations; whatever is accepted then must consume exactly the frame's extent, and a parser that then consumes exactly the frame has itself declared it complete: refusing it alone is reported (the outcome changes when bytes are appended)", "every accepted frame is also parsed from a slice with spare capacity holding a plausible continuation", "the structure extent is the reference encoder's length"},
		Components:   comps(map[string]string{"transport": "simulated: in-process byte stream / datagram queue with segmentation, coalescing, reset, padding, truncation (stub for NTCP2/SSU2, which are not in this repository)", "receiver": "harness code: append to buffer, call the expected Read* function, keep the remainder", "clock": "synctest bubble (fixed instant) so that time-dependent accessors in the observation vector are deterministic"}),
		TimeoutQuick: 5 * time.Minute, TimeoutThoro: 150 * time.Minute},
	"C15": {World: "clock", QuickRuns: 20000, ThoroughRuns: 5000000,
		Rule:         "one run = one seeded script: a lease table of 1..24 entries (Lease, Lease2, OfflineSignature, LeaseSet2, EncryptedLeaseSet, MetaLeaseSet + entries - one in three of these with an offline block that has its own expiry -, LeaseSets of 1..16 leases, Date conversions, RouterInfo / RouterAddress dates; parsed from reference bytes and built by constructors) evaluated at 2..12 boots, each a fresh synctest bubble slept to a scripted absolute instant (relative to an entry's exact expiry, at the 2038/2106 edges, or uniform in 2000..2262; consecutive boots may go backwards). A run is non-trivial if at least one boot happened; distinct = distinct run fingerprints (SHA-256 over every (entry, boot) observation).",
		Assumptions:  []string{"testing/synctest's fake clock is the only clock the library reads (inventory in DESIGN.md §1)", "the bubble clock covers 2000-01-01 .. 2262-04-01 only: expiries before 2000-01-02 are seen from the expired side only, millisecond dates past 2262 from the not-expired side only", "inside the ±24 h band around an expiry IsExpired is not judged (the property promises nothing there)", "a structure with an offline block: 'expired a day ago' is judged on the structure's own expiry whatever the block says; 'not expired a day ahead' only when the block's expiry is a day ahead too (an implementation may let the earlier deadline count)"},
		Components:   comps(map[string]string{"clock": "simulated: testing/synctest bubble, one per boot, time zone per boot via time.Local"}),
		TimeoutQuick: 5 * time.Minute, TimeoutThoro: 150 * time.Minute},
}

type knownFile struct {
	Findings []struct {
		Property string `json:"property"`
		Class    string `json:"class"`
		What     string `json:"what"`
	} `json:"findings"`
	Fixed []json.RawMessage `json:"fixed"`
}

type runner struct {
	prop    string
	cfg     propCfg
	tier    string
	seed    uint64
	scratch string
	env     []string
	start   time.Time
	infra   []string
	keep    bool
	repoDir string
}

func fatal2(format string, a ...any) {
	fmt.Fprintf(os.Stderr, "simcheck: infrastructure trouble: "+format+"\n", a...)
	os.Exit(2)
}

func main() {
	if len(os.Args) < 2 {
		fmt.Fprintln(os.Stderr, "usage: simcheck check <id> [--tier quick|thorough] | replay <id> <file> | selftest [ids...] | list")
		os.Exit(2)
	}
	switch os.Args[1] {
	case "list":
		for _, k := range sortedProps() {
			fmt.Println(k, props[k].World)
		}
	case "check":
		if len(os.Args) < 3 {
			fatal2("check needs a property id")
		}
		id := os.Args[2]
		tier := os.Getenv("VERIF_TIER")
		repo := "/repo"
		evidence := true
		for i := 3; i < len(os.Args); i++ {
			switch os.Args[i] {
			case "--no-evidence":
				evidence = false
			case "--tier":
				i++
				tier = os.Args[i]
			case "--repo":
				i++
				repo = os.Args[i]
			}
		}
		if tier != "thorough" {
			tier = "quick"
		}
		os.Exit(check(id, tier, repo, evidence))
	case "replay":
		if len(os.Args) < 4 {
			fatal2("replay needs a property id and a file")
		}
		os.Exit(replayCmd(os.Args[2], os.Args[3]))
	case "selftest":
		os.Exit(selftest(os.Args[2:]))
	case "mutants":
		os.Exit(mutants(os.Args[2:]))
	case "benign":
		os.Exit(benign(os.Args[2:]))
	case "script":
		// debugging aid: print the script and outcome of one run index
		if len(os.Args) < 4 {
			fatal2("script needs a property id and a run index")
		}
		n, _ := strconv.Atoi(os.Args[3])
		r := newRunner(os.Args[2], "quick", "/repo")
		r.prepare()
		defer r.cleanup()
		bin, err := r.build(len(os.Args) > 4 && os.Args[4] == "race")
		if err != nil {
			fmt.Fprintln(os.Stderr, err)
			r.cleanup()
			os.Exit(2)
		}
		res := r.fanoutOne(bin, n, n+1, "script", append([]string{"SIM_DOUBLE_EVERY=1", "SIM_RECORD_FP_BELOW=1000000000"}, r.envFor(bin, "script")...), 10*time.Minute)
		if res == nil {
			r.cleanup()
			os.Exit(2)
		}
		b, _ := json.MarshalIndent(res, "", " ")
		fmt.Println(string(b))
	default:
		fatal2("unknown command %q", os.Args[1])
	}
}

func sortedProps() []string {
	var k []string
	for x := range props {
		k = append(k, x)
	}
	sort.Strings(k)
	return k
}

func seedFromEnv() uint64 {
	v := os.Getenv("VERIF_SEED")
	if v == "" {
		return 1
	}
	if n, err := strconv.ParseUint(v, 10, 64); err == nil {
		return n
	}
	if n, err := strconv.ParseInt(v, 10, 64); err == nil {
		return uint64(n)
	}
	return 1
}

func newRunner(id, tier, repo string) *runner {
	cfg, ok := props[id]
	if !ok {
		fatal2("property %s is not claimed by this framework (see MANIFEST.json not_applicable)", id)
	}
	r := &runner{prop: id, cfg: cfg, tier: tier, seed: seedFromEnv(), start: time.Now(), repoDir: repo}
	r.env = append(os.Environ(),
		"GOFLAGS=-mod=mod", "GOPROXY=off", "GOSUMDB=off", "GOTOOLCHAIN=local", "GONOSUMDB=*", "GONOSUMCHECK=1",
		"DEBUG_I2P=", "WARNFAIL_I2P=", "SIM_PROPERTY="+id)
	return r
}

// prepare copies the repository and writes the module file for the build.
func (r *runner) prepare() {
	base := os.Getenv("TMPDIR")
	if base == "" {
		base = os.TempDir()
	}
	d, err := os.MkdirTemp(base, "i2psim-"+r.prop+"-")
	if err != nil {
		fatal2("scratch dir: %v", err)
	}
	r.scratch = d
	if err := copyTree(r.repoDir, filepath.Join(d, "common")); err != nil {
		r.cleanup()
		fatal2("copy %s: %v", r.repoDir, err)
	}
	if r.cfg.Instrument {
		n, err := instrument.Tree(filepath.Join(d, "common"))
		if err != nil {
			r.cleanup()
			fatal2("instrument: %v", err)
		}
		fmt.Printf("instrumented %d yield sites in the scratch copy\n", n)
	}
	mod, err := os.ReadFile(filepath.Join(simDir, "go.mod"))
	if err != nil {
		r.cleanup()
		fatal2("read go.mod: %v", err)
	}
	lines := strings.Split(string(mod), "\n")
	for i, l := range lines {
		if strings.HasPrefix(strings.TrimSpace(l), "replace github.com/go-i2p/common") {
			lines[i] = "replace github.com/go-i2p/common => " + filepath.Join(d, "common")
		}
	}
	if err := os.WriteFile(filepath.Join(d, "sim.mod"), []byte(strings.Join(lines, "\n")), 0o644); err != nil {
		fatal2("write sim.mod: %v", err)
	}
	sum, err := os.ReadFile(filepath.Join(r.repoDir, "go.sum"))
	if err != nil {
		sum, _ = os.ReadFile(filepath.Join(simDir, "go.sum"))
	}
	_ = os.WriteFile(filepath.Join(d, "sim.sum"), sum, 0o644)
}

func (r *runner) cleanup() {
	if r.scratch != "" && !r.keep {
		_ = os.RemoveAll(r.scratch)
	}
}

func copyTree(src, dst string) error {
	return filepath.WalkDir(src, func(p string, d fs.DirEntry, err error) error {
		if err != nil {
			return err
		}
		rel, _ := filepath.Rel(src, p)
		if rel == ".git" || strings.HasPrefix(rel, ".git"+string(filepath.Separator)) {
			if d.IsDir() {
				return filepath.SkipDir
			}
			return nil
		}
		target := filepath.Join(dst, rel)
		if d.IsDir() {
			return os.MkdirAll(target, 0o755)
		}
		if !d.Type().IsRegular() {
			return nil
		}
		in, err := os.Open(p)
		if err != nil {
			return err
		}
		defer in.Close()
		out, err := os.Create(target)
		if err != nil {
			return err
		}
		defer out.Close()
		_, err = io.Copy(out, in)
		return err
	})
}

// build compiles the world's test binary against the scratch copy.
func (r *runner) build(race bool) (string, error) {
	name := r.cfg.World + ".test"
	args := []string{"test", "-c", "-modfile=" + filepath.Join(r.scratch, "sim.mod"), "-vet=off"}
	if race {
		name = r.cfg.World + ".race.test"
		args = append(args, "-race")
	}
	if r.cfg.Instrument {
		args = append(args, "-tags", "simyield")
	}
	out := filepath.Join(r.scratch, name)
	args = append(args, "-o", out, "./worlds/"+r.cfg.World)
	cmd := exec.Command(goBin, args...)
	cmd.Dir = simDir
	cmd.Env = r.env
	var buf bytes.Buffer
	cmd.Stdout, cmd.Stderr = &buf, &buf
	if err := cmd.Run(); err != nil {
		return "", fmt.Errorf("build failed: %v\n%s", err, buf.String())
	}
	return out, nil
}

type workerSpec struct {
	cpu      string // -test.cpu (GOMAXPROCS of the worker); "" = 1
	race     bool
	from, to int
	extraEnv []string
	out      string
	log      string
}

func (r *runner) runWorker(bin string, w workerSpec, timeout time.Duration) (*engine.WorkerResult, error) {
	cpu := w.cpu
	if cpu == "" {
		cpu = "1"
	}
	cmd := exec.Command(bin, "-test.run", "^TestSim$", "-test.count=1", "-test.timeout", (timeout + time.Minute).String(), "-test.cpu", cpu)
	cmd.Dir = r.scratch
	cmd.Env = append(append([]string{}, r.env...),
		"SIM_OUT="+w.out, "SIM_FROM="+strconv.Itoa(w.from), "SIM_TO="+strconv.Itoa(w.to),
		"VERIF_SEED="+strconv.FormatUint(r.seed, 10), "SIM_TIER="+r.tier,
		"SIM_REPLAY_DIR="+filepath.Join(verifDir, "replays", r.prop))
	cmd.Env = append(cmd.Env, w.extraEnv...)
	lf, err := os.Create(w.log)
	if err != nil {
		return nil, err
	}
	defer lf.Close()
	cmd.Stdout, cmd.Stderr = lf, lf
	if err := cmd.Start(); err != nil {
		return nil, err
	}
	done := make(chan error, 1)
	go func() { done <- cmd.Wait() }()
	var werr error
	select {
	case werr = <-done:
	case <-time.After(timeout):
		_ = cmd.Process.Kill()
		<-done
		return nil, fmt.Errorf("watchdog: worker [%d,%d) exceeded %v", w.from, w.to, timeout)
	}
	b, rerr := os.ReadFile(w.out)
	if rerr != nil {
		tail := tailFile(w.log, 4000)
		return nil, fmt.Errorf("worker [%d,%d) wrote no result (%v, exit %v)\n%s", w.from, w.to, rerr, werr, tail)
	}
	var res engine.WorkerResult
	if err := json.Unmarshal(b, &res); err != nil {
		return nil, fmt.Errorf("worker result: %v", err)
	}
	if werr != nil && !w.race {
		// a non-zero exit of a worker that wrote its result is only expected in
		// race builds (a subtest "fails" when the detector reports)
		res.Infra = append(res.Infra, fmt.Sprintf("worker exited with %v: %s", werr, tailFile(w.log, 1500)))
	}
	return &res, nil
}

func tailFile(p string, n int) string {
	b, err := os.ReadFile(p)
	if err != nil {
		return ""
	}
	if len(b) > n {
		b = b[len(b)-n:]
	}
	return string(b)
}

type merged struct {
	runs       int
	faults     map[string]int64
	probes     map[string]int64
	sim        float64
	nt         map[string]bool
	viol       map[string]*engine.ViolationReport
	panics     int
	panicS     string
	samples    []*engine.Script
	infra      []string
	fp         map[string]string
	doubleRuns int
	pathVaries int
	fpr        map[string]string
	tags       map[string]bool
}

func newMerged() *merged {
	return &merged{faults: map[string]int64{}, probes: map[string]int64{}, nt: map[string]bool{}, viol: map[string]*engine.ViolationReport{}, fp: map[string]string{}, fpr: map[string]string{}, tags: map[string]bool{}}
}

func (m *merged) add(res *engine.WorkerResult) {
	m.runs += res.Runs
	for k, v := range res.Faults {
		m.faults[k] += v
	}
	for k, v := range res.Probes {
		m.probes[k] += v
	}
	m.sim += res.SimSeconds
	for _, f := range res.NonTrivial {
		m.nt[f] = true
	}
	for i := range res.Violations {
		v := res.Violations[i]
		if e, ok := m.viol[v.Class]; ok {
			e.Count += v.Count
			if len(e.Alternates) < 8 {
				e.Alternates = append(e.Alternates, v.Alternates...)
			}
			if v.RunIndex < e.RunIndex {
				c := e.Count
				*e = v
				e.Count = c
			}
		} else {
			vv := v
			m.viol[v.Class] = &vv
		}
	}
	m.panics += res.Panics
	if m.panicS == "" {
		m.panicS = res.PanicSample
	}
	for _, s := range res.Samples {
		if len(m.samples) < 3 {
			m.samples = append(m.samples, s)
		}
	}
	m.infra = append(m.infra, res.Infra...)
	for k, v := range res.FPByRun {
		m.fp[k] = v
	}
	m.doubleRuns += res.DoubleRuns
	m.pathVaries += res.PathVaries
	for k, v := range res.FPRByRun {
		m.fpr[k] = v
	}
	for _, t := range res.Tags {
		m.tags[t] = true
	}
}

// fanout runs [0,total) split over workers and merges.
func (r *runner) fanout(bin string, total int, tag string, extraEnv []string, timeout time.Duration) *merged {
	nw := runtime.NumCPU()
	if nw > 16 {
		nw = 16
	}
	if total < nw*4 {
		nw = (total + 3) / 4
	}
	if nw < 1 {
		nw = 1
	}
	m := newMerged()
	var mu sync.Mutex
	var wg sync.WaitGroup
	per := (total + nw - 1) / nw
	for i := 0; i < nw; i++ {
		from, to := i*per, (i+1)*per
		if to > total {
			to = total
		}
		if from >= to {
			continue
		}
		wg.Add(1)
		go func(i, from, to int) {
			defer wg.Done()
			w := workerSpec{race: strings.Contains(bin, ".race."), from: from, to: to, extraEnv: append([]string{"SIM_RECORD_FP_BELOW=6", "SIM_DOUBLE_EVERY=" + strconv.Itoa(doubleEvery(total))}, extraEnv...),
				out: filepath.Join(r.scratch, fmt.Sprintf("%s-w%d.json", tag, i)), log: filepath.Join(r.scratch, fmt.Sprintf("%s-w%d.log", tag, i))}
			res, err := r.runWorker(bin, w, timeout)
			mu.Lock()
			defer mu.Unlock()
			if err != nil {
				m.infra = append(m.infra, err.Error())
				return
			}
			m.add(res)
		}(i, from, to)
	}
	wg.Wait()
	return m
}

func doubleEvery(total int) int {
	// about 40 double executions per batch, at least every 500th run
	d := total / 40
	if d < 1 {
		d = 1
	}
	if d > 500 {
		d = 500
	}
	return d
}

func loadKnown() map[string]string {
	out := map[string]string{}
	b, err := os.ReadFile(filepath.Join(verifDir, "known_findings.json"))
	if err != nil {
		return out
	}
	var k knownFile
	if err := json.Unmarshal(b, &k); err != nil {
		fatal2("known_findings.json: %v", err)
	}
	for _, f := range k.Findings {
		out[f.Property+"|"+f.Class] = f.What
	}
	return out
}

func check(id, tier, repo string, writeEvidence bool) int {
	r := newRunner(id, tier, repo)
	r.prepare()
	defer r.cleanup()
	fmt.Printf("property=%s world=%s tier=%s VERIF_SEED=%d scratch=%s\n", id, r.cfg.World, tier, r.seed, r.scratch)

	bin, err := r.build(false)
	if err != nil {
		fmt.Fprintln(os.Stderr, err)
		r.cleanup()
		fatal2("the current %s tree does not build with the harness", repo)
	}
	total, timeout := r.cfg.QuickRuns, r.cfg.TimeoutQuick
	raceRuns := r.cfg.QuickRace
	if tier == "thorough" {
		total, timeout, raceRuns = r.cfg.ThoroughRuns, r.cfg.TimeoutThoro, r.cfg.ThoroughRace
	}
	if v := os.Getenv("SIM_RUNS"); v != "" {
		if n, err := strconv.Atoi(v); err == nil && n > 0 {
			total = n
		}
	}
	m := r.fanout(bin, total, "main", nil, timeout)

	// Determinism sample: the first runs again, in a fresh process at another
	// GOMAXPROCS; fingerprints must match those of the main batch.
	det := r.fanoutOne(bin, 0, min(6, total), "det", []string{"GOMAXPROCS=4", "SIM_RECORD_FP_BELOW=6"}, timeout)
	detChecked := 0
	if det != nil {
		for k, v := range det.FPByRun {
			if mv, ok := m.fp[k]; ok {
				detChecked++
				if mv != v && m.fpr[k] != "" && m.fpr[k] == det.FPRByRun[k] {
					m.pathVaries++
				} else if mv != v {
					m.infra = append(m.infra, fmt.Sprintf("nondeterminism across processes: run %s fingerprint %s vs %s", k, mv, v))
				}
			}
		}
	} else {
		m.infra = append(m.infra, "determinism sample worker failed")
	}

	m.infra = r.settleInProcessMismatches(bin, m.infra, timeout)

	var raceM *merged
	if raceRuns > 0 {
		rbin, err := r.build(true)
		if err != nil {
			fmt.Fprintln(os.Stderr, err)
			r.cleanup()
			fatal2("race build failed")
		}
		raceM = r.fanout(rbin, raceRuns, "race", r.raceEnv("race"), timeout)
		raceM.infra = r.settleInProcessMismatches(rbin, raceM.infra, timeout)
		m.infra = append(m.infra, raceM.infra...)
		for k, v := range raceM.viol {
			if _, ok := m.viol[k]; !ok {
				m.viol[k] = v
			} else {
				m.viol[k].Count += v.Count
			}
		}
		for k, v := range raceM.probes {
			m.probes["race_build:"+k] += v
		}
		for t := range raceM.tags {
			m.tags[t] = true
		}
		m.probes["race_build_runs"] += int64(raceM.runs)
	}

	if raceM != nil {
		m.pathVaries += raceM.pathVaries
	}
	if m.pathVaries > 0 {
		fmt.Fprintf(os.Stderr, "simcheck: note: %d executions took another path through the code under test when repeated although every result agreed: the tree's execution path is not a function of the script (it ranges over a Go map, for instance); interleavings of such runs replay by result, not step by step\n", m.pathVaries)
	}
	known := loadKnown()
	var classes []string
	for c := range m.viol {
		classes = append(classes, c)
	}
	sort.Strings(classes)
	exit := 0
	newViol := 0
	var knownLines, violLines, replayMisses []string
	raceMinimised, freshMinimised := 0, 0
	// replays of the plain build are independent of each other: run them side
	// by side (a change that breaks a property in eighty ways should not take
	// eighty process start-ups in a row)
	type conf struct {
		ok  bool
		why string
	}
	pre := map[string]conf{}
	{
		var mu sync.Mutex
		var wg sync.WaitGroup
		sem := make(chan struct{}, 8)
		for _, c := range classes {
			if _, ok := known[id+"|"+c]; ok || strings.Contains(c, "/race/") {
				continue
			}
			wg.Add(1)
			go func(c string, v *engine.ViolationReport) {
				defer wg.Done()
				sem <- struct{}{}
				ok, why := r.confirm(bin, v)
				<-sem
				mu.Lock()
				pre[c] = conf{ok, why}
				mu.Unlock()
			}(c, m.viol[c])
		}
		wg.Wait()
	}
	for _, c := range classes {
		v := m.viol[c]
		if what, ok := known[id+"|"+c]; ok {
			knownLines = append(knownLines, fmt.Sprintf("KNOWN-FINDING: property=%s %s [%s] (%d runs; e.g. %s)", id, what, c, v.Count, v.Replay))
			continue
		}
		// confirm by replay in a fresh process
		useBin := bin
		if raceM != nil {
			if _, inRace := raceM.viol[c]; inRace && strings.Contains(c, "/race/") {
				useBin, _ = r.build(true)
			}
		}
		var ok bool
		var why string
		if p, done := pre[c]; done && useBin == bin {
			ok, why = p.ok, p.why
		} else {
			ok, why = r.confirm(useBin, v)
		}
		if !ok {
			// The script was minimised inside a process that had already executed
			// many runs. If the violation needs state the library accumulated
			// over them, only an unminimised script that contains the whole
			// history reproduces it in a fresh process: try those, and minimise
			// the first that does with one fresh process per candidate.
			for _, alt := range v.Alternates {
				av := *v
				av.Replay = alt
				if as, err := engine.LoadScript(alt); err == nil && as.Expect != nil {
					av.Fingerprint = as.Expect.Fingerprint
				}
				if ok2, _ := r.confirm(useBin, &av); ok2 {
					r.minimiseFresh(useBin, &av, func(cl string) bool { return cl == c })
					_ = os.Rename(av.Replay, v.Replay)
					v.Fingerprint, v.MinOps = av.Fingerprint, av.MinOps
					ok = true
					fmt.Fprintf(os.Stderr, "simcheck: note: class %s only reproduces from a script that carries its whole history (it depends on state kept across operations); minimised with fresh processes\n", c)
					break
				}
			}
		}
		if !ok {
			replayMisses = append(replayMisses, fmt.Sprintf("replay of %s did not reproduce class %s: %s", v.Replay, c, why))
			continue
		}
		if strings.HasPrefix(c, "C18/race/") && raceMinimised < 3 {
			// the worker cannot minimise race classes (the detector never repeats
			// a report inside one process): do it here, one fresh process per candidate
			raceMinimised++
			r.minimiseFresh(useBin, v, func(cl string) bool { return strings.HasPrefix(cl, "C18/race/") })
		}
		if v.MinOps == v.OrigOps && v.OrigOps > 3 && freshMinimised < 3 && !strings.HasPrefix(c, "C18/race/") {
			// the worker could not shrink the script at all: the violation did not
			// recur inside the (by then warmed-up) worker process. It reproduces in a
			// fresh process, so shrink it there.
			freshMinimised++
			r.minimiseFresh(useBin, v, func(cl string) bool { return cl == c })
		}
		newViol++
		violLines = append(violLines, fmt.Sprintf("VIOLATION property=%s replay=%s", id, v.Replay))
		fmt.Printf("violation class=%s runs=%d seed=%d minimised %d->%d steps\n  %s\n", c, v.Count, v.RunSeed, v.OrigOps, v.MinOps, v.Detail)
	}
	wall := time.Since(r.start).Seconds()
	if writeEvidence {
		r.writeEvidence(m, total, wall, newViol, len(knownLines), detChecked)
	}
	for _, l := range knownLines {
		fmt.Println(l)
	}
	for _, l := range violLines {
		fmt.Println(l)
	}
	fmt.Printf("runs=%d distinct_nontrivial=%d faults_fired=%d sim_time=%.3g s panics_observed=%d wall=%.1fs\n", m.runs, len(m.nt), sumMap(m.faults), m.sim, m.panics, wall)
	// A violation that did not reproduce from its replay file is never
	// reported as a violation. If nothing else was confirmed the run is
	// infrastructure trouble; next to confirmed violations it is a warning.
	for _, s := range replayMisses {
		fmt.Fprintln(os.Stderr, "simcheck: not reported (replay mismatch):", s)
	}
	if len(replayMisses) > 0 && newViol == 0 {
		m.infra = append(m.infra, replayMisses...)
	}
	if len(m.infra) > 0 {
		sort.Strings(m.infra)
		for i, s := range m.infra {
			if i >= 10 {
				fmt.Fprintf(os.Stderr, "simcheck: ... %d more\n", len(m.infra)-10)
				break
			}
			fmt.Fprintln(os.Stderr, "simcheck: infrastructure trouble:", s)
		}
		if newViol > 0 && onlyNondeterminism(m.infra) {
			// violations that reproduce from their replay files in fresh
			// processes stand even if the tree under test no longer executes
			// deterministically (which is then part of what is wrong with it)
			return 1
		}
		return 2
	}
	if m.runs < total && os.Getenv("SIM_BUDGET_S") == "" {
		fmt.Fprintf(os.Stderr, "simcheck: infrastructure trouble: only %d of %d runs executed\n", m.runs, total)
		return 2
	}
	if newViol > 0 {
		exit = 1
	}
	return exit
}

// tagCounts turns the set of "kind:detail" tags into distinct counts per kind.
func tagCounts(tags map[string]bool) map[string]int {
	out := map[string]int{}
	for t := range tags {
		k := t
		if i := strings.Index(t, ":"); i > 0 {
			k = t[:i]
		}
		out[k]++
	}
	return out
}

var inProcRe = regexp.MustCompile(`^nondeterminism(?: across processes)?: run (\d+) `)

// settleInProcessMismatches looks at what the workers' self-check reported. A
// worker re-executes every k-th run in the same process and compares
// fingerprints; a difference means either that the simulator is not
// deterministic (infrastructure trouble) or that the tree under test keeps
// state across the operations of one process (an intern table with statistics,
// say), which is not the simulator's business. The two are told apart by
// executing the run alone in two fresh processes: if those agree, the entries
// become a note.
func (r *runner) settleInProcessMismatches(bin string, infra []string, timeout time.Duration) []string {
	var runs []int
	for _, s := range infra {
		if m := inProcRe.FindStringSubmatch(s); m != nil {
			n, _ := strconv.Atoi(m[1])
			runs = append(runs, n)
		}
	}
	if len(runs) == 0 {
		return infra
	}
	sort.Ints(runs)
	if len(runs) > 3 {
		runs = []int{runs[0], runs[len(runs)/2], runs[len(runs)-1]}
	}
	for _, n := range runs {
		key := strconv.Itoa(n)
		ta, tb := fmt.Sprintf("settle-a-%d", n), fmt.Sprintf("settle-b-%d", n)
		a := r.fanoutOne(bin, n, n+1, ta, append([]string{"SIM_RECORD_FP_BELOW=2000000000"}, r.envFor(bin, ta)...), timeout)
		b := r.fanoutOne(bin, n, n+1, tb, append([]string{"SIM_RECORD_FP_BELOW=2000000000"}, r.envFor(bin, tb)...), timeout)
		if a == nil || b == nil || a.FPByRun[key] == "" {
			return infra
		}
		if a.FPByRun[key] != b.FPByRun[key] && (a.FPRByRun[key] == "" || a.FPRByRun[key] != b.FPRByRun[key]) {
			return infra
		}
	}
	var out []string
	dropped := 0
	for _, s := range infra {
		if inProcRe.MatchString(s) {
			dropped++
			continue
		}
		out = append(out, s)
	}
	fmt.Fprintf(os.Stderr, "simcheck: note: %d runs give another fingerprint when re-executed inside the same worker process, but the same fingerprint in two fresh processes (runs %v checked): the tree under test keeps state across the operations of one process; the simulator is deterministic\n", dropped, runs)
	return out
}

func onlyNondeterminism(infra []string) bool {
	for _, s := range infra {
		if !strings.Contains(s, "nondeterminism") && !strings.Contains(s, "did not reproduce") {
			return false
		}
	}
	return true
}

func sumMap(m map[string]int64) int64 {
	var s int64
	for _, v := range m {
		s += v
	}
	return s
}

func (r *runner) fanoutOne(bin string, from, to int, tag string, extraEnv []string, timeout time.Duration) *engine.WorkerResult {
	cpu := ""
	for _, e := range extraEnv {
		if strings.HasPrefix(e, "GOMAXPROCS=") {
			cpu = strings.TrimPrefix(e, "GOMAXPROCS=")
		}
	}
	w := workerSpec{cpu: cpu, race: strings.Contains(bin, ".race."), from: from, to: to, extraEnv: extraEnv, out: filepath.Join(r.scratch, tag+".json"), log: filepath.Join(r.scratch, tag+".log")}
	res, err := r.runWorker(bin, w, timeout)
	if err != nil {
		fmt.Fprintln(os.Stderr, "simcheck:", err)
		return nil
	}
	return res
}

var confirmSeq atomic.Int64

// confirm replays a minimised script in a fresh process.
func (r *runner) confirm(bin string, v *engine.ViolationReport) (bool, string) {
	if v.Replay == "" {
		return false, "no replay file was written"
	}
	tag := fmt.Sprintf("confirm-%d", confirmSeq.Add(1))
	res := r.fanoutOne(bin, 0, 1, tag, append([]string{"SIM_REPLAY=" + v.Replay}, r.envFor(bin, tag)...), 5*time.Minute)
	if res == nil || res.Replayed == nil {
		return false, "replay worker failed"
	}
	found := false
	for _, c := range res.Replayed.Classes {
		if c == v.Class {
			found = true
		}
		// Which pair of stacks the race detector names first depends on what
		// it already reported earlier in the same process (it never repeats a
		// report), so a replay in a fresh process may name another pair of the
		// same race: any race report reproduces a race-class violation.
		if strings.HasPrefix(v.Class, "C18/race/") && strings.HasPrefix(c, "C18/race/") {
			found = true
		}
	}
	if !found {
		return false, fmt.Sprintf("classes on replay: %v", res.Replayed.Classes)
	}
	if res.Replayed.Fingerprint != v.Fingerprint {
		// the same violation class reproduced in a fresh process but the run as a
		// whole did not repeat byte for byte: the code under test has become
		// nondeterministic (e.g. a sync.Pool). The violation stands; say so.
		fmt.Fprintf(os.Stderr, "simcheck: note: %s reproduces class %s but with fingerprint %s (was %s): the tree under test does not execute deterministically\n", v.Replay, v.Class, res.Replayed.Fingerprint, v.Fingerprint)
	}
	return true, ""
}

// raceEnv is the environment of a race-build worker: the detector keeps
// going after a report and writes its reports to a file the world reads back.
func (r *runner) raceEnv(tag string) []string {
	lp := filepath.Join(r.scratch, "racelog-"+tag)
	return []string{"SIM_RACE=1", "SIM_RACE_LOG=" + lp, "GORACE=halt_on_error=0 history_size=7 log_path=" + lp}
}

func (r *runner) envFor(bin, tag string) []string {
	if strings.Contains(bin, ".race.") {
		return r.raceEnv(tag)
	}
	return nil
}

// minimiseFresh shrinks a replay script by delta debugging with one fresh
// process per candidate (schedule switches, boots, faults, then ops), within a
// budget, and rewrites the replay file. Used where in-process minimisation is
// unsound: race classes (the detector never repeats a report) and violations
// that depend on state the process accumulated.
func (r *runner) minimiseFresh(bin string, v *engine.ViolationReport, same func(class string) bool) {
	s, err := engine.LoadScript(v.Replay)
	if err != nil {
		return
	}
	start := time.Now()
	tmp := filepath.Join(r.scratch, "racemin.json")
	execs := 0
	try := func(c *engine.Script) (bool, string) {
		if execs >= 60 || time.Since(start) > 90*time.Second {
			return false, ""
		}
		execs++
		if err := c.Save(tmp); err != nil {
			return false, ""
		}
		res := r.fanoutOne(bin, 0, 1, "racemin", append([]string{"SIM_REPLAY=" + tmp}, r.envFor(bin, "racemin")...), 2*time.Minute)
		if res == nil || res.Replayed == nil {
			return false, ""
		}
		for _, cl := range res.Replayed.Classes {
			if same(cl) {
				return true, res.Replayed.Fingerprint
			}
		}
		return false, ""
	}
	best := s
	fp := v.Fingerprint
	size := func(x *engine.Script) int { return len(x.Ops) + len(x.Sched) + len(x.Boots) + len(x.Faults) }
	orig := size(s)
	for i := 0; i < len(best.Sched); {
		c := best.Clone()
		c.Sched = append(c.Sched[:i:i], c.Sched[i+1:]...)
		if ok, f := try(c); ok {
			best, fp = c, f
		} else {
			i++
		}
	}
	for i := 0; i < len(best.Boots); {
		c := best.Clone()
		c.Boots = append(c.Boots[:i:i], c.Boots[i+1:]...)
		if ok, f := try(c); ok {
			best, fp = c, f
		} else {
			i++
		}
	}
	for i := 0; i < len(best.Faults); {
		c := best.Clone()
		c.Faults = append(c.Faults[:i:i], c.Faults[i+1:]...)
		if ok, f := try(c); ok {
			best, fp = c, f
		} else {
			i++
		}
	}
	for i := 0; i < len(best.Ops); {
		if best.Ops[i].Op == "value" {
			i++
			continue
		}
		c := best.Clone()
		c.Ops = append(c.Ops[:i:i], c.Ops[i+1:]...)
		if ok, f := try(c); ok {
			best, fp = c, f
		} else {
			i++
		}
	}
	if size(best) < orig {
		if best.Expect != nil {
			best.Expect.Fingerprint = fp
		}
		if best.Save(v.Replay) == nil {
			v.Fingerprint = fp
			v.MinOps = size(best)
		}
	}
}

func raceFlag(bin string) string {
	if strings.Contains(bin, ".race.") {
		return "1"
	}
	return ""
}

func replayCmd(id, file string) int {
	abs, _ := filepath.Abs(file)
	s, err := engine.LoadScript(abs)
	if err != nil {
		fatal2("%v", err)
	}
	r := newRunner(id, "quick", "/repo")
	r.prepare()
	defer r.cleanup()
	race := s.Expect != nil && strings.Contains(s.Expect.ViolationClass, "/race/")
	bin, err := r.build(race)
	if err != nil {
		fmt.Fprintln(os.Stderr, err)
		r.cleanup()
		fatal2("build failed")
	}
	res := r.fanoutOne(bin, 0, 1, "replay", append([]string{"SIM_REPLAY=" + abs}, r.envFor(bin, "replay")...), 10*time.Minute)
	if res == nil || res.Replayed == nil {
		r.cleanup()
		fatal2("replay worker failed")
	}
	fmt.Printf("replayed %s: fingerprint=%s\n", abs, res.Replayed.Fingerprint)
	for i, c := range res.Replayed.Classes {
		fmt.Printf("  class=%s\n    %s\n", c, res.Replayed.Details[i])
	}
	if s.Expect != nil {
		hit := false
		for _, c := range res.Replayed.Classes {
			if c == s.Expect.ViolationClass || (strings.HasPrefix(s.Expect.ViolationClass, "C18/race/") && strings.HasPrefix(c, "C18/race/")) {
				hit = true
			}
		}
		fmt.Printf("expected class %s: reproduced=%v fingerprint_match=%v\n", s.Expect.ViolationClass, hit, res.Replayed.Fingerprint == s.Expect.Fingerprint)
		if hit {
			fmt.Printf("VIOLATION property=%s replay=%s\n", id, abs)
			return 1
		}
		return 0
	}
	if len(res.Replayed.Classes) > 0 {
		fmt.Printf("VIOLATION property=%s replay=%s\n", id, abs)
		return 1
	}
	return 0
}

func (r *runner) writeEvidence(m *merged, total int, wall float64, newViol, knownN, detChecked int) {
	type ev struct {
		PropertyID  string         `json:"property_id"`
		Tier        string         `json:"tier"`
		Seed        int64          `json:"seed"`
		Level       string         `json:"level"`
		Coverage    map[string]any `json:"coverage"`
		Assumptions []string       `json:"assumptions"`
		WallS       float64        `json:"wall_s"`
		Violations  int            `json:"violations"`
	}
	var samples []any
	for _, s := range m.samples {
		samples = append(samples, s)
	}
	if len(samples) == 0 {
		samples = append(samples, "no run completed")
	}
	perHour := 0.0
	if wall > 0 {
		perHour = float64(m.runs) / wall * 3600
	}
	cov := map[string]any{
		"evaluations":             m.runs,
		"distinct_nontrivial":     len(m.nt),
		"rule":                    r.cfg.Rule,
		"samples":                 samples,
		"technique":               "deterministic simulation with fault injection: seeded search over scripts (operations, faults, schedules, boots); every run replayable from VERIF_SEED and its run index",
		"simulated_runs_per_hour": perHour,
		"seeds_per_hour":          perHour,
		"simulated_time_seconds":  m.sim,
		"faults_fired":            m.faults,
		"probes":                  m.probes,
		"panics_observed":         m.panics,
		"known_findings_hit":      knownN,
		"determinism": map[string]any{
			"in_process_double_executions":                      m.doubleRuns,
			"executions_whose_path_varied_while_results_agreed": m.pathVaries,
			"cross_process_fingerprints_compared":               detChecked,
			"note":                                              "every mismatch is reported as infrastructure trouble (exit 2), never as a violation",
		},
		"distinct_situations_reached": tagCounts(m.tags),
		"components":                  r.cfg.Components,
		"toolchain":                   goBin + " (GOTOOLCHAIN=local), GOMAXPROCS of workers = 1 (+ one sample at another setting)",
		"runs_requested":              total,
	}
	if m.panicS != "" {
		cov["panic_sample"] = m.panicS
	}
	e := ev{PropertyID: r.prop, Tier: r.tier, Seed: int64(r.seed), Level: "exploration", Coverage: cov, Assumptions: r.cfg.Assumptions, WallS: wall, Violations: newViol}
	b, _ := json.MarshalIndent(e, "", " ")
	_ = os.MkdirAll(filepath.Join(verifDir, "evidence"), 0o755)
	if err := os.WriteFile(filepath.Join(verifDir, "evidence", r.prop+".json"), append(b, '\n'), 0o644); err != nil {
		fatal2("write evidence: %v", err)
	}
}

// selftest: determinism proof. For every claimed property (or those named),
// 40 run seeds are executed in three fresh processes at GOMAXPROCS 1, 4, 16
// and the fingerprints are compared.
func selftest(ids []string) int {
	if len(ids) == 0 {
		ids = sortedProps()
	}
	bad := 0
	nSelf := 300
	for _, id := range ids {
		r := newRunner(id, "quick", "/repo")
		r.prepare()
		bin, err := r.build(false)
		if err != nil {
			fmt.Fprintln(os.Stderr, err)
			r.cleanup()
			return 2
		}
		var fps []map[string]string
		for pi, p := range []string{"1", "4", "16", "1"} {
			res := r.fanoutOne(bin, 0, nSelf, fmt.Sprintf("self%d-%s", pi, p), []string{"GOMAXPROCS=" + p, fmt.Sprintf("SIM_RECORD_FP_BELOW=%d", nSelf)}, 20*time.Minute)
			if res == nil {
				r.cleanup()
				return 2
			}
			fps = append(fps, res.FPByRun)
		}
		mism := 0
		for k, v := range fps[0] {
			if fps[1][k] != v || fps[2][k] != v || fps[3][k] != v {
				mism++
				fmt.Printf("selftest %s: run %s differs: %s %s %s %s\n", id, k, v, fps[1][k], fps[2][k], fps[3][k])
			}
		}
		fmt.Printf("selftest %s: %d seeds x 4 fresh processes (GOMAXPROCS 1/4/16/1): %d mismatches\n", id, len(fps[0]), mism)
		bad += mism
		r.cleanup()
	}
	if bad > 0 {
		return 2
	}
	return 0
}

// mutants: sensitivity proof. Every patch under /verif/mutants is applied to
// a scratch copy of /repo (never to /repo) and the check of the property it
// breaks must exit 1 within its quick budget. With --others every other
// claimed check must stay at 0 on that copy.
func mutants(args []string) int {
	type mut struct{ Name, Property, File string }
	b, err := os.ReadFile(filepath.Join(verifDir, "mutants", "mutants.json"))
	if err != nil {
		fatal2("%v", err)
	}
	var raw []map[string]string
	if err := json.Unmarshal(b, &raw); err != nil {
		fatal2("%v", err)
	}
	others := false
	only := map[string]bool{}
	for _, a := range args {
		if a == "--others" {
			others = true
		} else {
			only[a] = true
		}
	}
	missed, falseAlarms := 0, 0
	for _, m := range raw {
		name, prop := m["name"], m["property"]
		if len(only) > 0 && !only[name] && !only[prop] {
			continue
		}
		base := os.Getenv("TMPDIR")
		if base == "" {
			base = os.TempDir()
		}
		d, err := os.MkdirTemp(base, "i2psim-mutant-")
		if err != nil {
			fatal2("%v", err)
		}
		if err := copyTree("/repo", d); err != nil {
			fatal2("%v", err)
		}
		cmd := exec.Command("patch", "-p1", "-s", "-i", filepath.Join(verifDir, "mutants", name+".patch"))
		cmd.Dir = d
		if out, err := cmd.CombinedOutput(); err != nil {
			fmt.Printf("mutant %-48s PATCH DOES NOT APPLY: %s\n", name, strings.TrimSpace(string(out)))
			missed++
			os.RemoveAll(d)
			continue
		}
		start := time.Now()
		code := quiet(func() int { return check(prop, "quick", d, false) })
		verdict := "caught"
		if code != 1 {
			verdict = fmt.Sprintf("MISSED (exit %d)", code)
			missed++
		}
		fmt.Printf("mutant %-48s %s by %s in %.1fs\n", name, verdict, prop, time.Since(start).Seconds())
		if others {
			for _, p := range sortedProps() {
				if p == prop {
					continue
				}
				if c := quiet(func() int { return check(p, "quick", d, false) }); c != 0 {
					fmt.Printf("   %s also reports exit %d on this mutant\n", p, c)
					if c == 1 {
						falseAlarms++
					}
				}
			}
		}
		os.RemoveAll(d)
	}
	fmt.Printf("mutants: %d missed, %d reports by checks of other properties\n", missed, falseAlarms)
	if missed > 0 {
		return 1
	}
	return 0
}

// quiet runs f with stdout/stderr of this process redirected to /dev/null.
func quiet(f func() int) int {
	null, err := os.OpenFile(os.DevNull, os.O_WRONLY, 0)
	if err != nil {
		return f()
	}
	defer null.Close()
	so, se := os.Stdout, os.Stderr
	os.Stdout, os.Stderr = null, null
	defer func() { os.Stdout, os.Stderr = so, se }()
	return f()
}

// benign: the other half of the sensitivity proof. Every patch listed in
// /verif/mutants/benign.json is a property-preserving edit; applied to a
// scratch copy of /repo, every claimed check must still exit 0.
func benign(args []string) int {
	b, err := os.ReadFile(filepath.Join(verifDir, "mutants", "benign.json"))
	if err != nil {
		fatal2("%v", err)
	}
	var raw []map[string]string
	if err := json.Unmarshal(b, &raw); err != nil {
		fatal2("%v", err)
	}
	only := map[string]bool{}
	for _, a := range args {
		only[a] = true
	}
	alarms := 0
	for _, m := range raw {
		name := m["name"]
		if len(only) > 0 && !only[name] {
			continue
		}
		base := os.Getenv("TMPDIR")
		if base == "" {
			base = os.TempDir()
		}
		d, err := os.MkdirTemp(base, "i2psim-benign-")
		if err != nil {
			fatal2("%v", err)
		}
		if err := copyTree("/repo", d); err != nil {
			fatal2("%v", err)
		}
		cmd := exec.Command("patch", "-p1", "-s", "-i", filepath.Join(verifDir, "mutants", name+".patch"))
		cmd.Dir = d
		if out, err := cmd.CombinedOutput(); err != nil {
			fmt.Printf("benign %-48s PATCH DOES NOT APPLY: %s\n", name, strings.TrimSpace(string(out)))
			alarms++
			os.RemoveAll(d)
			continue
		}
		var bad []string
		for _, p := range sortedProps() {
			if c := quiet(func() int { return check(p, "quick", d, false) }); c != 0 {
				bad = append(bad, fmt.Sprintf("%s=exit %d", p, c))
			}
		}
		if len(bad) == 0 {
			fmt.Printf("benign %-48s all %d checks stay at exit 0\n", name, len(props))
		} else {
			fmt.Printf("benign %-48s ALARM: %s\n", name, strings.Join(bad, " "))
			alarms += len(bad)
		}
		os.RemoveAll(d)
	}
	fmt.Printf("benign: %d alarms\n", alarms)
	if alarms > 0 {
		return 1
	}
	return 0
}
