// Package instrument inserts scheduler yield points into a scratch copy of
// the repository (C18 world).
package instrument

import "fmt"

// Tree instruments every non-test Go file below root.
func Tree(root string) (int, error) { return 0, fmt.Errorf("not implemented yet") }
