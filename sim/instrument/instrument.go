// Package instrument rewrites a scratch copy of the repository for the C18
// world: it inserts a scheduler yield call before every statement of every
// function body, and adds to each package a generated file exposing pointers
// to the package-level variables (for the no-mutation snapshot).
//
// The rewrite is a text splice at statement start offsets taken from
// go/parser positions, so comments, formatting and compiler directives stay
// untouched. Nothing here ever touches /repo itself.
package instrument

import (
	"bytes"
	"fmt"
	"go/ast"
	"go/parser"
	"go/token"
	"os"
	"path/filepath"
	"sort"
	"strings"
)

const yieldPkgSrc = `// Package zzsimyield is added to the scratch copy by the C18 simulator.
package zzsimyield

import (
	"sync"
	"time"
)

// Now replaces time.Now() in the instrumented library: the C18 world cannot
// run inside a synctest bubble (see DESIGN.md), so its clock is frozen here
// instead. Every time-dependent accessor then answers the same in the solo
// and in the concurrent execution.
func Now() time.Time { return time.Unix(1767225600, 0) }

// Since and Until replace time.Since / time.Until the same way.
func Since(t time.Time) time.Duration { return Now().Sub(t) }
func Until(t time.Time) time.Duration { return t.Sub(Now()) }

// Hook is set by the simulated scheduler; nil means "no simulation" and the
// yield calls are no-ops.
var Hook func(site int)

// Y is called before every statement of the instrumented library.
//
//go:norace
func Y(site int) {
	if quiet != 0 {
		return
	}
	if h := Hook; h != nil {
		h(site)
	}
}

// quiet > 0 while a Pool runs its New function: those statements are not
// yield points (whether New runs depends on what the pool holds, and the
// number of statements a call executes must not).
var quiet int32

//go:norace
func setQuiet(d int32) { quiet += d }

// Pool replaces sync.Pool in the instrumented library. What a sync.Pool
// returns is decided by the garbage collector (victim cache), by the P the
// goroutine runs on and, in a race build, by a random draw in Put — three
// sources of nondeterminism the simulator does not own. This one is a plain
// LIFO behind a mutex: deterministic, never drops an item, and hands the most
// recently returned item to the next caller whichever task that is, which is
// the worst case for code that keeps using an item after Put (a legal
// behaviour of sync.Pool, made certain). The mutex gives the race detector the
// same Put -> Get ordering the real pool announces.
type Pool struct {
	New   func() any
	mu    sync.Mutex
	items []any
}

func (p *Pool) Get() any {
	p.mu.Lock()
	if n := len(p.items); n > 0 {
		x := p.items[n-1]
		p.items[n-1] = nil
		p.items = p.items[:n-1]
		p.mu.Unlock()
		return x
	}
	p.mu.Unlock()
	if p.New == nil {
		return nil
	}
	setQuiet(1)
	defer setQuiet(-1)
	return p.New()
}

func (p *Pool) Put(x any) {
	if x == nil {
		return
	}
	p.mu.Lock()
	p.items = append(p.items, x)
	p.mu.Unlock()
}

// LockHook is told when the running task has taken (+1) or released (-1) a
// lock of the library (sync.Mutex / RWMutex Lock/RLock/Unlock/RUnlock, and the
// body of a Do call): the scheduler does not park a task that holds one — a
// parked lock holder and a task blocking on the same lock in the Go runtime
// would be a deadlock of the simulator, not of the code under test.
var LockHook func(delta int)

//go:norace
func L(delta int) {
	if h := LockHook; h != nil {
		h(delta)
	}
}
`

// Tree instruments every non-test Go file below root (skipping fuzz/ and the
// generated package itself) and returns the number of yield sites.
func Tree(root string) (int, error) {
	modPath, err := modulePath(root)
	if err != nil {
		return 0, err
	}
	if err := os.MkdirAll(filepath.Join(root, "zzsimyield"), 0o755); err != nil {
		return 0, err
	}
	if err := os.WriteFile(filepath.Join(root, "zzsimyield", "zzsimyield.go"), []byte(yieldPkgSrc), 0o644); err != nil {
		return 0, err
	}
	var files []string
	err = filepath.WalkDir(root, func(p string, d os.DirEntry, err error) error {
		if err != nil {
			return err
		}
		rel, _ := filepath.Rel(root, p)
		if d.IsDir() {
			if rel == "fuzz" || rel == "zzsimyield" || strings.HasPrefix(rel, ".") && rel != "." {
				return filepath.SkipDir
			}
			return nil
		}
		if strings.HasSuffix(p, ".go") && !strings.HasSuffix(p, "_test.go") {
			files = append(files, p)
		}
		return nil
	})
	if err != nil {
		return 0, err
	}
	sort.Strings(files)
	site := 0
	globals := map[string][]string{} // dir -> package-level var names
	pkgName := map[string]string{}
	for _, f := range files {
		n, vars, pkg, err := instrumentFile(f, modPath, site)
		if err != nil {
			return 0, fmt.Errorf("%s: %w", f, err)
		}
		site += n
		dir := filepath.Dir(f)
		globals[dir] = append(globals[dir], vars...)
		pkgName[dir] = pkg
	}
	dirs := make([]string, 0, len(globals))
	for d := range globals {
		dirs = append(dirs, d)
	}
	sort.Strings(dirs)
	for _, d := range dirs {
		var sb strings.Builder
		fmt.Fprintf(&sb, "// Code generated by the C18 simulator. DO NOT EDIT.\n\npackage %s\n\n", pkgName[d])
		sb.WriteString("// ZZSimGlobals returns pointers to the package-level variables.\nfunc ZZSimGlobals() map[string]any {\n\treturn map[string]any{\n")
		vars := globals[d]
		sort.Strings(vars)
		for _, v := range vars {
			fmt.Fprintf(&sb, "\t\t%q: &%s,\n", v, v)
		}
		sb.WriteString("\t}\n}\n")
		if err := os.WriteFile(filepath.Join(d, "zz_simglobals.go"), []byte(sb.String()), 0o644); err != nil {
			return 0, err
		}
	}
	return site, nil
}

func modulePath(root string) (string, error) {
	b, err := os.ReadFile(filepath.Join(root, "go.mod"))
	if err != nil {
		return "", err
	}
	for _, l := range strings.Split(string(b), "\n") {
		l = strings.TrimSpace(l)
		if strings.HasPrefix(l, "module ") {
			return strings.TrimSpace(strings.TrimPrefix(l, "module ")), nil
		}
	}
	return "", fmt.Errorf("no module line in go.mod")
}

func instrumentFile(path, modPath string, firstSite int) (int, []string, string, error) {
	src, err := os.ReadFile(path)
	if err != nil {
		return 0, nil, "", err
	}
	fset := token.NewFileSet()
	file, err := parser.ParseFile(fset, path, src, parser.ParseComments)
	if err != nil {
		return 0, nil, "", err
	}
	var vars []string
	for _, d := range file.Decls {
		gd, ok := d.(*ast.GenDecl)
		if !ok || gd.Tok != token.VAR {
			continue
		}
		for _, sp := range gd.Specs {
			for _, n := range sp.(*ast.ValueSpec).Names {
				if n.Name != "_" {
					vars = append(vars, n.Name)
				}
			}
		}
	}
	// bodies of switch / type switch / select are lists of clauses, not of
	// statements: a call may not be spliced in front of a clause
	skip := map[*ast.BlockStmt]bool{}
	ast.Inspect(file, func(n ast.Node) bool {
		switch x := n.(type) {
		case *ast.SwitchStmt:
			skip[x.Body] = true
		case *ast.TypeSwitchStmt:
			skip[x.Body] = true
		case *ast.SelectStmt:
			skip[x.Body] = true
		}
		return true
	})
	var offs []int
	type splice struct {
		at   int
		text string
	}
	var extra []splice
	lockCall := func(e ast.Expr) (name string, ok bool) {
		c, isCall := e.(*ast.CallExpr)
		if !isCall {
			return "", false
		}
		sel, isSel := c.Fun.(*ast.SelectorExpr)
		if !isSel {
			return "", false
		}
		switch sel.Sel.Name {
		case "Lock", "RLock", "Unlock", "RUnlock":
			return sel.Sel.Name, len(c.Args) == 0
		case "Do":
			return "Do", len(c.Args) == 1
		}
		return "", false
	}
	add := func(list []ast.Stmt) {
		for _, st := range list {
			offs = append(offs, fset.Position(st.Pos()).Offset)
			switch x := st.(type) {
			case *ast.ExprStmt:
				if name, ok := lockCall(x.X); ok {
					end := fset.Position(x.End()).Offset
					switch name {
					case "Lock", "RLock":
						extra = append(extra, splice{end, "; zzsimyield.L(1)"})
					case "Unlock", "RUnlock":
						extra = append(extra, splice{end, "; zzsimyield.L(-1)"})
					case "Do":
						extra = append(extra, splice{fset.Position(x.Pos()).Offset, "zzsimyield.L(1); "}, splice{end, "; zzsimyield.L(-1)"})
					}
				}
			case *ast.DeferStmt:
				if name, ok := lockCall(x.Call); ok && (name == "Unlock" || name == "RUnlock") {
					extra = append(extra, splice{fset.Position(x.Call.Pos()).Offset, "func() { "}, splice{fset.Position(x.Call.End()).Offset, "; zzsimyield.L(-1) }()"})
				}
			}
		}
	}
	ast.Inspect(file, func(n ast.Node) bool {
		switch x := n.(type) {
		case *ast.BlockStmt:
			if !skip[x] {
				add(x.List)
			}
		case *ast.CaseClause:
			add(x.Body)
		case *ast.CommClause:
			add(x.Body)
		}
		return true
	})
	if len(offs) == 0 {
		return 0, vars, file.Name.Name, nil
	}
	sort.Ints(offs)
	// dedupe (a labeled statement and its inner statement never share a start)
	uniq := offs[:0]
	for i, o := range offs {
		if i == 0 || o != offs[i-1] {
			uniq = append(uniq, o)
		}
	}
	offs = uniq
	// every insertion: the yields, then the lock bookkeeping; at equal offsets
	// the yield comes first and the rest keeps its order
	all := make([]splice, 0, len(offs)+len(extra))
	for i, o := range offs {
		all = append(all, splice{o, fmt.Sprintf("zzsimyield.Y(%d); ", firstSite+i)})
	}
	all = append(all, extra...)
	sort.SliceStable(all, func(i, j int) bool { return all[i].at < all[j].at })
	var out []byte
	prev := 0
	pkgEnd := fset.Position(file.Name.End()).Offset
	importDone := false
	emitImport := func() {
		out = append(out, fmt.Sprintf("; import zzsimyield %q", modPath+"/zzsimyield")...)
		importDone = true
	}
	for _, sp := range all {
		if !importDone && pkgEnd <= sp.at {
			out = append(out, src[prev:pkgEnd]...)
			prev = pkgEnd
			emitImport()
		}
		out = append(out, src[prev:sp.at]...)
		out = append(out, sp.text...)
		prev = sp.at
	}
	out = append(out, src[prev:]...)
	importsTime := false
	for _, im := range file.Imports {
		if im.Path.Value == `"time"` && im.Name == nil {
			importsTime = true
		}
	}
	if importsTime && (bytes.Contains(out, []byte("time.Now()")) || bytes.Contains(out, []byte("time.Since(")) || bytes.Contains(out, []byte("time.Until("))) {
		out = bytes.ReplaceAll(out, []byte("time.Now()"), []byte("zzsimyield.Now()"))
		out = bytes.ReplaceAll(out, []byte("time.Since("), []byte("zzsimyield.Since("))
		out = bytes.ReplaceAll(out, []byte("time.Until("), []byte("zzsimyield.Until("))
		out = append(out, "\nvar _ = time.Unix // keeps the import in use\n"...)
	}
	importsSync := false
	for _, im := range file.Imports {
		if im.Path.Value == `"sync"` && im.Name == nil {
			importsSync = true
		}
	}
	if importsSync && bytes.Contains(out, []byte("sync.Pool")) {
		if !importDone {
			// no statement in this file: the import has not been emitted yet
			out = append(append(append([]byte{}, out[:pkgEnd]...), fmt.Sprintf("; import zzsimyield %q", modPath+"/zzsimyield")...), out[pkgEnd:]...)
		}
		out = bytes.ReplaceAll(out, []byte("sync.Pool"), []byte("zzsimyield.Pool"))
		out = append(out, "\nvar _ sync.Locker // keeps the import in use\n"...)
	}
	if err := os.WriteFile(path, out, 0o644); err != nil {
		return 0, nil, "", err
	}
	return len(offs), vars, file.Name.Name, nil
}
