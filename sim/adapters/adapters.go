// Package adapters is the harness-side catalogue of the library's
// remainder-returning parser entry points: how to generate a reference shape
// for each, how to call it, and what counts as success.
package adapters

import (
	"fmt"
	"strings"

	"github.com/go-i2p/common/certificate"
	"github.com/go-i2p/common/data"
	"github.com/go-i2p/common/destination"
	"github.com/go-i2p/common/encrypted_leaseset"
	"github.com/go-i2p/common/key_certificate"
	"github.com/go-i2p/common/keys_and_cert"
	"github.com/go-i2p/common/lease"
	"github.com/go-i2p/common/lease_set"
	"github.com/go-i2p/common/lease_set2"
	"github.com/go-i2p/common/meta_leaseset"
	"github.com/go-i2p/common/offline_signature"
	"github.com/go-i2p/common/router_address"
	"github.com/go-i2p/common/router_identity"
	"github.com/go-i2p/common/router_info"
	"github.com/go-i2p/common/session_key"
	"github.com/go-i2p/common/session_tag"
	"github.com/go-i2p/common/signature"

	"i2psim.local/sim/engine"
	"i2psim.local/sim/refmodel"
)

// Result of one parser call.
type Result struct {
	Val    any
	Rem    []byte
	HasRem bool // the entry point returns a remainder at all
	OK     bool // success by the entry point's own contract
}

// Adapter describes one entry point.
type Adapter struct {
	Name  string
	Gen   func(r *engine.RNG) *engine.Shape
	Arg   func(sh *engine.Shape) int
	Parse func(b []byte, arg int) Result
	// C08 marks entry points whose result is in C08's list of structures.
	C08 bool
	// NoRem: the entry point returns no remainder (it wants exactly the
	// structure's bytes); not a C03 subject.
	NoRem bool
	// Exempt lists field classes of the reference frame that C08 exempts for
	// this structure (options / entry properties of LS2 and MLS).
	Exempt []string
}

func noArg(*engine.Shape) int { return 0 }

// mappingOK is the success definition of ReadMapping / NewMapping. The parser
// reports data after the declared size as a (documented, non-fatal) warning, so
// "no error" cannot be the rule. Independently of the warning's wording: the
// parse succeeded iff there is no error at all, or exactly one error together
// with a non-empty remainder (every truncation path returns a nil remainder).
// RefKnob draws the self-reference knob of a shape (engine.Shape.Ref): one run
// in four, one lease gateway or entry hash is derived from the structure's own
// identity, key or preceding bytes, repeats its neighbour, or is all zeros/ones.
func RefKnob(r *engine.RNG) int {
	if !r.Chance(1, 4) {
		return 0
	}
	return r.PickInt(1, 1, 1, 2, 3, 4, 5, 6, 7, 8) | r.Intn(16)<<4
}

func mappingOK(errs []error, rem []byte) bool {
	n := 0
	for _, e := range errs {
		if e != nil {
			n++
		}
	}
	return n == 0 || (n == 1 && len(rem) > 0)
}

var sigsKAC = []int{0, 1, 2, 7, 8, 11}
var sigsDest = []int{0, 1, 2, 7, 11}
var sigsRI = []int{0, 1, 2, 7}

// IdentShape draws an identity-bearing shape of the given kind.
func IdentShape(r *engine.RNG, kind string) *engine.Shape {
	sh := &engine.Shape{Kind: kind, Seed: r.Uint64() | 1, IdentSeed: 1 + uint64(r.Intn(6))}
	sigs, cryptos := sigsKAC, []int{0, 4, 4, 5, 6, 7}
	switch kind {
	case "dest":
		sigs, cryptos = sigsDest, []int{0, 4, 4}
	case "rident":
		sigs, cryptos = sigsRI, []int{0, 4, 4}
	}
	sh.Sig = sigs[r.Intn(len(sigs))]
	sh.Crypto = cryptos[r.Intn(len(cryptos))]
	sh.Cert = "key"
	switch r.Intn(12) {
	case 0, 1:
		sh.Cert, sh.Sig, sh.Crypto = "null", 0, 0
	case 2:
		sh.Cert, sh.Sig, sh.Crypto = "null", 0, 0
		sh.Excess = r.Range(1, 9) // NULL certificate with a payload: legal but unusual
	case 3, 4:
		sh.Excess = r.Range(1, 12) // excess key-certificate payload
	case 5:
		// type pairs the parser is expected to refuse (counted as a probe)
		sh.Sig = r.PickInt(3, 4, 5, 6, 9, 10, 12)
		sh.Crypto = r.PickInt(0, 1, 2, 3, 4)
	case 6:
		if r.Chance(1, 4) {
			// certificate length field at its boundary values
			if sh.Cert == "null" {
				sh.Excess = r.PickInt(255, 256, 65533, 65534, 65535)
			} else {
				sh.Excess = r.PickInt(251, 252, 65529, 65530, 65531) // 4 + excess = 255, 256, 65533..65535
			}
		}
	}
	return sh
}

var optKeys = []string{"a", "b", "caps", "host", "port", "i", "s", "v", "netId", "router.version", "key", "x", "introducer0", "mtu", "",
	"A", "Z", "aa", "a.b", "a=b", "k;", "\u00e9", "\u00e9a", "host ", "Host", strings.Repeat("q", 255), "a-b", "a_b", "aB", "ab", "\U0001F511", "\uFFFDz"}

// optVals include payload that looks like structure: runs of zero bytes (an
// empty mapping, a NULL certificate, a zero count), a key certificate, a
// complete pair. A parser that re-synchronises or looks ahead meets something
// parseable inside a value.
var optVals = []string{"", "1", "f", "XfR", "127.0.0.1", "::1", "12345", "0.9.67", "2", strings.Repeat("k", 44), strings.Repeat("v", 200), strings.Repeat("w", 255), strings.Repeat("w", 254), "=;", "a=b;",
	strings.Repeat("\x00", 200), strings.Repeat("\x00", 97), "\x00\x00", "\x05\x00\x04\x00\x07\x00\x04", "\x01k=\x01v;", strings.Repeat("\x00\x06\x01k=\x01v;", 20)}

// Options draws 0..max unique-key pairs (sometimes unsorted, sometimes with
// pairs the parser treats leniently).
func Options(r *engine.RNG, max int) ([][2]string, bool) {
	n := 0
	if r.Chance(2, 3) {
		n = r.Range(1, max)
	}
	var out [][2]string
	used := map[string]bool{}
	for i := 0; i < n; i++ {
		k := optKeys[r.Intn(len(optKeys))]
		if k == "" && !r.Chance(1, 4) {
			k = "k"
		}
		if r.Chance(1, 5) {
			k = k + string(rune('0'+r.Intn(10)))
		}
		if used[k] {
			continue
		}
		used[k] = true
		out = append(out, [2]string{k, optVals[r.Intn(len(optVals))]})
	}
	return out, len(out) > 1 && r.Chance(1, 4)
}

func raddrShape(r *engine.RNG) *engine.Shape {
	sh := &engine.Shape{Kind: "raddr", Seed: r.Uint64() | 1}
	sh.U = []uint64{uint64(r.Intn(256)), 0}
	if r.Chance(1, 5) {
		sh.U[1] = r.Uint64() >> uint(r.Intn(40))
	}
	sh.Str = r.PickStr("NTCP2", "SSU2", "NTCP", "SSU", "x", strings.Repeat("T", 255), "ntcp2")
	sh.Opts, sh.Unsorted = Options(r, 8)
	return sh
}

func offline(r *engine.RNG, transients []int) *engine.OfflineShape {
	return &engine.OfflineShape{Transient: transients[r.Intn(len(transients))], Expires: r.Uint64() & 0xFFFFFFFF, Seed: r.Uint64() | 1}
}

var allTransients = []int{0, 1, 2, 3, 4, 5, 6, 7, 8, 11}

func ls2Shape(r *engine.RNG, kind string) *engine.Shape {
	sh := IdentShape(r, "dest")
	sh.Kind = kind
	if r.Chance(3, 4) { // keep most frames above the parsers' minimum sizes
		sh.Sig, sh.Crypto, sh.Cert, sh.Excess = r.PickInt(7, 7, 11, 1, 2), r.PickInt(4, 0), "key", 0
	}
	sh.U = []uint64{r.Uint64() & 0xFFFFFFFF, r.Uint64() & 0xFFFF, uint64(r.Intn(4)) << 1}
	if r.Chance(1, 10) {
		sh.U[2] |= uint64(r.Intn(1<<13)) << 3 // reserved flag bits
	}
	if r.Chance(1, 3) {
		sh.Offline = offline(r, allTransients)
	}
	sh.Ref = RefKnob(r)
	if kind == "ls2" {
		sh.N = r.PickInt(0, 1, 1, 2, 3, 5, 16)
		sh.Size = r.PickInt(1, 1, 2, 3, 16)
		sh.Opts, sh.Unsorted = Options(r, 6)
		if r.Chance(1, 8) {
			// encryption keys with unusual type / length fields (0, 1, 255, 256, 65535 bytes)
			for i := 0; i < sh.Size && i < 3; i++ {
				sh.Sub = append(sh.Sub, engine.Shape{Kind: "key", U: []uint64{uint64(r.PickInt(4, 0, 1, 5, 255, 65535))}, Size: r.PickInt(0, 1, 31, 32, 33, 255, 256, 65535)})
			}
		}
	} else {
		sh.N = r.PickInt(1, 1, 2, 3, 16)
		if r.Chance(1, 5) {
			sh.Opts, _ = Options(r, 3)
		}
		if r.Chance(1, 6) {
			sh.Sub = make([]engine.Shape, sh.N)
			for i := range sh.Sub {
				sh.Sub[i].Opts, _ = Options(r, 2)
			}
		}
	}
	for i := 0; i < sh.N; i++ {
		sh.U = append(sh.U, r.Uint64()&0xFFFFFFFF)
	}
	return sh
}

// All is the catalogue.
var All = []*Adapter{
	{Name: "ReadInteger", Gen: func(r *engine.RNG) *engine.Shape {
		return &engine.Shape{Kind: "integer", Size: r.Range(1, 8), U: []uint64{r.Uint64() >> uint(r.Intn(64))}}
	}, Arg: func(sh *engine.Shape) int { return sh.Size }, Parse: func(b []byte, n int) Result {
		i, rem := data.ReadInteger(b, n)
		return Result{Val: i, Rem: rem, HasRem: true, OK: len(i) == n}
	}},
	{Name: "NewInteger", Gen: func(r *engine.RNG) *engine.Shape {
		return &engine.Shape{Kind: "integer", Size: r.Range(1, 8), U: []uint64{r.Uint64() >> uint(r.Intn(64))}}
	}, Arg: func(sh *engine.Shape) int { return sh.Size }, Parse: func(b []byte, n int) Result {
		i, rem, err := data.NewInteger(b, n)
		return Result{Val: i, Rem: rem, HasRem: true, OK: err == nil && i != nil && len(*i) == n}
	}},
	{Name: "ReadI2PString", Gen: func(r *engine.RNG) *engine.Shape {
		str := strings.Repeat(r.PickStr("a", "xy", "\u00e9", "\x00", "=", ";"), r.PickInt(0, 1, 2, 7, 100, 254, 255))
		if len(str) > 255 {
			str = str[:255]
		}
		return &engine.Shape{Kind: "string", Str: str}
	}, Arg: noArg, Parse: func(b []byte, _ int) Result {
		s, rem, err := data.ReadI2PString(b)
		return Result{Val: s, Rem: rem, HasRem: true, OK: err == nil}
	}},
	{Name: "ReadDate", Gen: dateShape, Arg: noArg, Parse: func(b []byte, _ int) Result {
		d, rem, err := data.ReadDate(b)
		return Result{Val: d, Rem: rem, HasRem: true, OK: err == nil}
	}},
	{Name: "NewDate", Gen: dateShape, Arg: noArg, Parse: func(b []byte, _ int) Result {
		d, rem, err := data.NewDate(b)
		return Result{Val: d, Rem: rem, HasRem: true, OK: err == nil && d != nil}
	}},
	{Name: "ReadHash", Gen: seedShape("hash"), Arg: noArg, Parse: func(b []byte, _ int) Result {
		h, rem, err := data.ReadHash(b)
		return Result{Val: h, Rem: rem, HasRem: true, OK: err == nil}
	}},
	{Name: "ReadMapping", Gen: mappingShape, Arg: noArg, Parse: func(b []byte, _ int) Result {
		m, rem, errs := data.ReadMapping(b)
		return Result{Val: &m, Rem: rem, HasRem: true, OK: mappingOK(errs, rem)}
	}},
	{Name: "NewMapping", Gen: mappingShape, Arg: noArg, Parse: func(b []byte, _ int) Result {
		m, rem, errs := data.NewMapping(b)
		return Result{Val: m, Rem: rem, HasRem: true, OK: mappingOK(errs, rem) && m != nil}
	}},
	{Name: "ReadMappingValues", Gen: func(r *engine.RNG) *engine.Shape {
		sh := mappingShape(r)
		if len(sh.Opts) == 0 {
			sh.Opts = [][2]string{{"k", "v"}}
		}
		return sh
	}, Arg: noArg, Parse: func(b []byte, _ int) Result {
		// the frame is a whole mapping; its two size bytes are handed over as
		// the declared length, the rest as the data to read the pairs from
		if len(b) < 2 {
			return Result{HasRem: true}
		}
		vals, rem, errs := data.ReadMappingValues(b[2:], data.Integer(b[:2]))
		return Result{Val: vals, Rem: rem, HasRem: true, OK: mappingOK(errs, rem) && vals != nil}
	}},
	{Name: "ReadCertificate", C08: true, Gen: func(r *engine.RNG) *engine.Shape {
		sh := &engine.Shape{Kind: "cert", Seed: r.Uint64() | 1, U: []uint64{uint64(r.PickInt(0, 0, 1, 2, 3, 4, 5, 5, 6, 77, 255))}, N: r.PickInt(0, 0, 1, 3, 4, 5, 40, 72, 300)}
		if r.Chance(1, 12) {
			// boundary values of the 16-bit length field
			sh.N = r.PickInt(255, 256, 257, 32767, 32768, 65532, 65533, 65534, 65535)
		}
		return sh
	}, Arg: noArg, Parse: func(b []byte, _ int) Result {
		c, rem, err := certificate.ReadCertificate(b)
		return Result{Val: c, Rem: rem, HasRem: true, OK: err == nil && c != nil}
	}},
	{Name: "NewKeyCertificate", C08: true, Gen: func(r *engine.RNG) *engine.Shape {
		return &engine.Shape{Kind: "keycert", Seed: r.Uint64() | 1, Sig: r.PickInt(0, 1, 2, 3, 4, 7, 8, 11, 65280), Crypto: r.PickInt(0, 1, 4, 5, 6, 7, 255), Excess: r.PickInt(0, 0, 0, 1, 4, 128)}
	}, Arg: noArg, Parse: func(b []byte, _ int) Result {
		c, rem, err := key_certificate.NewKeyCertificate(b)
		return Result{Val: c, Rem: rem, HasRem: true, OK: err == nil && c != nil}
	}},
	{Name: "ReadKeysAndCert", C08: true, Gen: func(r *engine.RNG) *engine.Shape { return IdentShape(r, "kac") }, Arg: noArg, Parse: func(b []byte, _ int) Result {
		k, rem, err := keys_and_cert.ReadKeysAndCert(b)
		return Result{Val: k, Rem: rem, HasRem: true, OK: err == nil && k != nil}
	}},
	{Name: "ReadKeysAndCertElgAndEd25519", C08: true, Gen: func(r *engine.RNG) *engine.Shape {
		sh := IdentShape(r, "kac")
		sh.Sig, sh.Crypto, sh.Cert = 7, 0, "key"
		return sh
	}, Arg: noArg, Parse: func(b []byte, _ int) Result {
		k, rem, err := keys_and_cert.ReadKeysAndCertElgAndEd25519(b)
		return Result{Val: k, Rem: rem, HasRem: true, OK: err == nil && k != nil}
	}},
	{Name: "ReadKeysAndCertX25519AndEd25519", C08: true, Gen: func(r *engine.RNG) *engine.Shape {
		sh := IdentShape(r, "kac")
		sh.Sig, sh.Crypto, sh.Cert = 7, 4, "key"
		return sh
	}, Arg: noArg, Parse: func(b []byte, _ int) Result {
		k, rem, err := keys_and_cert.ReadKeysAndCertX25519AndEd25519(b)
		return Result{Val: k, Rem: rem, HasRem: true, OK: err == nil && k != nil}
	}},
	{Name: "ReadDestination", C08: true, Gen: func(r *engine.RNG) *engine.Shape { return IdentShape(r, "dest") }, Arg: noArg, Parse: func(b []byte, _ int) Result {
		d, rem, err := destination.ReadDestination(b)
		return Result{Val: &d, Rem: rem, HasRem: true, OK: err == nil}
	}},
	{Name: "NewDestinationFromBytes", C08: true, Gen: func(r *engine.RNG) *engine.Shape { return IdentShape(r, "dest") }, Arg: noArg, Parse: func(b []byte, _ int) Result {
		d, rem, err := destination.NewDestinationFromBytes(b)
		return Result{Val: d, Rem: rem, HasRem: true, OK: err == nil && d != nil}
	}},
	{Name: "ReadRouterIdentity", C08: true, Gen: func(r *engine.RNG) *engine.Shape { return IdentShape(r, "rident") }, Arg: noArg, Parse: func(b []byte, _ int) Result {
		d, rem, err := router_identity.ReadRouterIdentity(b)
		return Result{Val: d, Rem: rem, HasRem: true, OK: err == nil && d != nil}
	}},
	{Name: "NewRouterIdentityFromBytes", C08: true, Gen: func(r *engine.RNG) *engine.Shape { return IdentShape(r, "rident") }, Arg: noArg, Parse: func(b []byte, _ int) Result {
		d, rem, err := router_identity.NewRouterIdentityFromBytes(b)
		return Result{Val: d, Rem: rem, HasRem: true, OK: err == nil && d != nil}
	}},
	{Name: "ReadRouterAddress", Gen: raddrShape, Arg: noArg, Parse: func(b []byte, _ int) Result {
		a, rem, err := router_address.ReadRouterAddress(b)
		return Result{Val: &a, Rem: rem, HasRem: true, OK: err == nil}
	}},
	{Name: "ReadRouterInfo", Gen: func(r *engine.RNG) *engine.Shape {
		sh := IdentShape(r, "rident")
		sh.Kind = "rinfo"
		if r.Chance(3, 4) {
			sh.Sig, sh.Crypto, sh.Cert, sh.Excess = 7, 4, "key", 0
		}
		sh.U = []uint64{r.Uint64() >> 20, 0}
		if r.Chance(1, 4) {
			sh.U[1] = uint64(r.PickInt(1, 1, 2, 3, 8, 255, r.Intn(256)))
		}
		na := r.PickInt(0, 1, 1, 2, 4)
		if r.Chance(1, 20) {
			na = r.PickInt(254, 255)
		}
		for i := 0; i < na; i++ {
			sh.Sub = append(sh.Sub, *raddrShape(r))
		}
		sh.Opts, sh.Unsorted = Options(r, 8)
		if r.Chance(1, 25) {
			sh.Opts = ManyOptions(r)
		}
		if sh.U[1] != 0 && r.Chance(1, 2) {
			// a declared peer count and, where the peer hashes would be, option
			// bytes that read as (empty) structure
			sh.Opts = append(sh.Opts, [2]string{"zz", strings.Repeat("\x00", r.PickInt(97, 200, 255))})
		}
		return sh
	}, Arg: noArg, Parse: func(b []byte, _ int) Result {
		ri, rem, err := router_info.ReadRouterInfo(b)
		return Result{Val: &ri, Rem: rem, HasRem: true, OK: err == nil}
	}},
	{Name: "ReadLease", C08: true, Gen: leaseShape("lease"), Arg: noArg, Parse: func(b []byte, _ int) Result {
		l, rem, err := lease.ReadLease(b)
		return Result{Val: l, Rem: rem, HasRem: true, OK: err == nil}
	}},
	{Name: "NewLeaseFromBytes", C08: true, Gen: leaseShape("lease"), Arg: noArg, Parse: func(b []byte, _ int) Result {
		l, rem, err := lease.NewLeaseFromBytes(b)
		return Result{Val: l, Rem: rem, HasRem: true, OK: err == nil && l != nil}
	}},
	{Name: "ReadLease2", C08: true, Gen: leaseShape("lease2"), Arg: noArg, Parse: func(b []byte, _ int) Result {
		l, rem, err := lease.ReadLease2(b)
		return Result{Val: l, Rem: rem, HasRem: true, OK: err == nil}
	}},
	{Name: "NewLease2FromBytes", C08: true, Gen: leaseShape("lease2"), Arg: noArg, Parse: func(b []byte, _ int) Result {
		l, rem, err := lease.NewLease2FromBytes(b)
		return Result{Val: l, Rem: rem, HasRem: true, OK: err == nil && l != nil}
	}},
	{Name: "ReadDestinationFromLeaseSet", C08: true, Gen: func(r *engine.RNG) *engine.Shape { return IdentShape(r, "dest") }, Arg: noArg, Parse: func(b []byte, _ int) Result {
		d, rem, err := lease_set.ReadDestinationFromLeaseSet(b)
		return Result{Val: &d, Rem: rem, HasRem: true, OK: err == nil}
	}},
	{Name: "ReadLeaseSet", C08: true, NoRem: true, Gen: func(r *engine.RNG) *engine.Shape {
		sh := IdentShape(r, "dest")
		sh.Kind = "leaseset"
		sh.Crypto = 0
		sh.Ref = RefKnob(r)
		if sh.Cert != "null" && r.Chance(1, 2) {
			sh.Sig = r.PickInt(7, 7, 0, 1, 2)
		}
		sh.N = r.PickInt(0, 1, 2, 3, 16)
		for i := 0; i < sh.N; i++ {
			sh.U = append(sh.U, r.Uint64()>>uint(1+r.Intn(30)))
		}
		return sh
	}, Arg: noArg, Parse: func(b []byte, _ int) Result {
		ls, err := lease_set.ReadLeaseSet(b)
		return Result{Val: &ls, HasRem: false, OK: err == nil}
	}},
	{Name: "ReadLeaseSet2", C08: true, Exempt: []string{refmodel.ClsOptions}, Gen: func(r *engine.RNG) *engine.Shape { return ls2Shape(r, "ls2") }, Arg: noArg, Parse: func(b []byte, _ int) Result {
		ls, rem, err := lease_set2.ReadLeaseSet2(b)
		return Result{Val: &ls, Rem: rem, HasRem: true, OK: err == nil}
	}},
	{Name: "ReadMetaLeaseSet", C08: true, Exempt: []string{refmodel.ClsOptions, refmodel.ClsEntryProps}, Gen: func(r *engine.RNG) *engine.Shape { return ls2Shape(r, "mls") }, Arg: noArg, Parse: func(b []byte, _ int) Result {
		ls, rem, err := meta_leaseset.ReadMetaLeaseSet(b)
		return Result{Val: &ls, Rem: rem, HasRem: true, OK: err == nil}
	}},
	{Name: "ReadEncryptedLeaseSet", C08: true, Gen: func(r *engine.RNG) *engine.Shape {
		sh := &engine.Shape{Kind: "els", Seed: r.Uint64() | 1, IdentSeed: 1 + uint64(r.Intn(6)), Sig: r.PickInt(7, 7, 11, 11, 0, 1, 2, 3, 4, 8), Size: r.PickInt(61, 61, 62, 100, 400, 60, 1, 255, 256, 4096, 16384, 32768, 32769, 40000, 65535)}
		sh.U = []uint64{r.Uint64() & 0xFFFFFFFF, 1 + r.Uint64()&0xFFFE, uint64(r.Intn(2)) << 1}
		if r.Chance(1, 3) {
			sh.Offline = offline(r, allTransients)
		}
		return sh
	}, Arg: noArg, Parse: func(b []byte, _ int) Result {
		ls, rem, err := encrypted_leaseset.ReadEncryptedLeaseSet(b)
		return Result{Val: &ls, Rem: rem, HasRem: true, OK: err == nil}
	}},
	{Name: "ReadOfflineSignature", C08: true, Gen: func(r *engine.RNG) *engine.Shape {
		sh := &engine.Shape{Kind: "offsig", Seed: r.Uint64() | 1, Sig: allTransients[r.Intn(len(allTransients))]}
		if r.Chance(1, 2) {
			sh.IdentSeed = 1 + uint64(r.Intn(6))
		}
		sh.Offline = offline(r, allTransients)
		return sh
	}, Arg: func(sh *engine.Shape) int { return sh.Sig }, Parse: func(b []byte, t int) Result {
		o, rem, err := offline_signature.ReadOfflineSignature(b, uint16(t))
		return Result{Val: &o, Rem: rem, HasRem: true, OK: err == nil}
	}},
	{Name: "ReadSignature", C08: true, Gen: sigShape, Arg: func(sh *engine.Shape) int { return sh.Sig }, Parse: func(b []byte, t int) Result {
		s, rem, err := signature.ReadSignature(b, t)
		return Result{Val: &s, Rem: rem, HasRem: true, OK: err == nil}
	}},
	{Name: "NewSignature", C08: true, Gen: sigShape, Arg: func(sh *engine.Shape) int { return sh.Sig }, Parse: func(b []byte, t int) Result {
		s, rem, err := signature.NewSignature(b, t)
		return Result{Val: s, Rem: rem, HasRem: true, OK: err == nil && s != nil}
	}},
	{Name: "NewSignatureFromBytes", C08: true, NoRem: true, Gen: sigShape, Arg: func(sh *engine.Shape) int { return sh.Sig }, Parse: func(b []byte, t int) Result {
		s, err := signature.NewSignatureFromBytes(b, t)
		return Result{Val: &s, OK: err == nil}
	}},
	{Name: "ReadSessionKey", Gen: seedShape("sessionkey"), Arg: noArg, Parse: func(b []byte, _ int) Result {
		k, rem, err := session_key.ReadSessionKey(b)
		return Result{Val: k, Rem: rem, HasRem: true, OK: err == nil}
	}},
	{Name: "NewSessionKey", Gen: seedShape("sessionkey"), Arg: noArg, Parse: func(b []byte, _ int) Result {
		k, rem, err := session_key.NewSessionKey(b)
		return Result{Val: k, Rem: rem, HasRem: true, OK: err == nil && k != nil}
	}},
	{Name: "ReadSessionTag", Gen: seedShape("sessiontag"), Arg: noArg, Parse: func(b []byte, _ int) Result {
		k, rem, err := session_tag.ReadSessionTag(b)
		return Result{Val: k, Rem: rem, HasRem: true, OK: err == nil}
	}},
	{Name: "NewSessionTag", Gen: seedShape("sessiontag"), Arg: noArg, Parse: func(b []byte, _ int) Result {
		k, rem, err := session_tag.NewSessionTag(b)
		return Result{Val: k, Rem: rem, HasRem: true, OK: err == nil && k != nil}
	}},
	{Name: "ReadECIESSessionTag", Gen: seedShape("eciestag"), Arg: noArg, Parse: func(b []byte, _ int) Result {
		k, rem, err := session_tag.ReadECIESSessionTag(b)
		return Result{Val: k, Rem: rem, HasRem: true, OK: err == nil}
	}},
	{Name: "NewECIESSessionTag", Gen: seedShape("eciestag"), Arg: noArg, Parse: func(b []byte, _ int) Result {
		k, rem, err := session_tag.NewECIESSessionTag(b)
		return Result{Val: k, Rem: rem, HasRem: true, OK: err == nil && k != nil}
	}},
}

func dateShape(r *engine.RNG) *engine.Shape {
	return &engine.Shape{Kind: "date", U: []uint64{r.Uint64() >> uint(r.Intn(64))}}
}

func seedShape(kind string) func(r *engine.RNG) *engine.Shape {
	return func(r *engine.RNG) *engine.Shape { return &engine.Shape{Kind: kind, Seed: r.Uint64() | 1} }
}

func mappingShape(r *engine.RNG) *engine.Shape {
	sh := &engine.Shape{Kind: "mapping"}
	sh.Opts, sh.Unsorted = Options(r, 8)
	if r.Chance(1, 15) {
		sh.Opts = ManyOptions(r)
	}
	return sh
}

// ManyOptions draws a mapping near one of its limits: the parser's pair limit
// (1000) or the 16-bit size field.
func ManyOptions(r *engine.RNG) [][2]string {
	var out [][2]string
	switch r.Intn(3) {
	case 0: // around the pair limit, shortest non-empty pairs
		n := r.PickInt(998, 999, 1000, 1001)
		for i := 0; i < n; i++ {
			out = append(out, [2]string{fmt.Sprintf("k%04d", i), "v"})
		}
	case 1: // size field close to 65535 with 255-byte strings
		n := r.PickInt(126, 127, 128)
		for i := 0; i < n; i++ {
			out = append(out, [2]string{fmt.Sprintf("%03d", i) + strings.Repeat("K", 252), strings.Repeat("V", r.PickInt(254, 255))})
		}
	default:
		n := r.PickInt(255, 256, 257)
		for i := 0; i < n; i++ {
			out = append(out, [2]string{fmt.Sprintf("o%03d", i), fmt.Sprintf("%d", i)})
		}
	}
	return out
}

func leaseShape(kind string) func(r *engine.RNG) *engine.Shape {
	return func(r *engine.RNG) *engine.Shape {
		end := r.Uint64() & 0xFFFFFFFF
		if kind == "lease" {
			end = r.Uint64() >> uint(1+r.Intn(30))
		}
		return &engine.Shape{Kind: kind, Seed: r.Uint64() | 1, U: []uint64{r.Uint64() & 0xFFFFFFFF, end}}
	}
}

func sigShape(r *engine.RNG) *engine.Shape {
	return &engine.Shape{Kind: "sig", Seed: r.Uint64() | 1, Sig: r.PickInt(0, 1, 2, 3, 4, 5, 6, 7, 8, 11)}
}

// ByName finds an adapter.
func ByName(n string) *Adapter {
	for _, a := range All {
		if a.Name == n {
			return a
		}
	}
	return nil
}
